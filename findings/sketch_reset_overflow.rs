// Public-API reproducer for the genuine defect found by Kani harness
// common::frequency_sketch::verif_sketch::l6_n4 / l6_n8 (property C08, also C14's aging clause):
//
//   FrequencySketch::reset():  self.size = (self.size >> 1) - (count >> 2);
//
// underflows when more than 2*size of the table's counters are odd at the moment of aging, which a
// caller can arrange for every capacity c with next_power_of_two(c) > 1.25*c (e.g. 129) by looking
// up chosen keys under a user-supplied hasher (the documented `build_with_hasher`).
// Debug build: panic "attempt to subtract with overflow" inside `get`; release build: `size` wraps to
// ~4e9, so that every following recorded lookup triggers another aging step until it decays.
//
// Drop this file into tests/ of mini-moka and run `cargo test --test sketch_reset_overflow`.
use mini_moka::unsync::Cache;
use std::hash::{BuildHasherDefault, Hasher};

#[derive(Default, Clone)]
struct Identity(u64);
impl Hasher for Identity {
    fn finish(&self) -> u64 { self.0 }
    fn write(&mut self, _b: &[u8]) { unimplemented!() }
    fn write_u64(&mut self, i: u64) { self.0 = i; }
}

const SEED: [u64; 4] = [0xc3a5_c85c_97cb_3127, 0xb492_b66f_be98_f273, 0x9ae1_6a3b_2f90_404f, 0xcbf2_9ce4_8422_2325];
fn index_of(hash: u64, depth: usize, mask: u64) -> usize {
    let mut h = hash.wrapping_add(SEED[depth]).wrapping_mul(SEED[depth]);
    h = h.wrapping_add(h >> 32);
    (h & mask) as usize
}

#[test]
fn aging_step_underflows_with_adversarial_keys() {
    const CAP: u64 = 129; // sketch table = 256 words (4096 counters), sample_size = 1290
    let mut cache: Cache<u64, (), BuildHasherDefault<Identity>> =
        Cache::builder().max_capacity(CAP).build_with_hasher(Default::default());
    // the sketch is enabled by the insert that brings the cache to half of its capacity
    for k in 0..65u64 { cache.insert(1_000_000 + k, ()); }

    // choose keys whose four counters are all still zero: each lookup makes 4 more counters odd
    let mask = 255u64;
    let mut odd = vec![[false; 16]; 256];
    let mut chosen = Vec::new();
    let mut k = 0u64;
    while chosen.len() < 660 {
        let start = ((k & 3) << 2) as usize;
        let cells: Vec<(usize, usize)> = (0..4).map(|i| (index_of(k, i, mask), start + i)).collect();
        if cells.iter().all(|&(w, j)| !odd[w][j]) {
            for &(w, j) in &cells { odd[w][j] = true; }
            chosen.push(k);
        }
        k += 1;
    }
    let mut lookups = 0u32;
    for &k in &chosen { cache.get(&k); lookups += 1; }          // 660 recorded lookups, 2640 odd counters
    // pad to sample_size with PAIRS of lookups (parity of every counter is preserved)
    let mut i = 0;
    while lookups < 1290 { let k = chosen[i % chosen.len()]; cache.get(&k); cache.get(&k); lookups += 2; i += 1; }
    // the 1290th recorded lookup ran reset(): (1290 >> 1) - (2640 >> 2) = 645 - 660  -> underflow
    // reaching this line without a panic means the arithmetic was in range
    assert!(cache.get(&chosen[0]).is_none());
}
