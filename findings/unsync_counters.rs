// Public-API reproducers for the C10 defects of unsync::Cache found by the Kani harnesses
// invalidate0_n2 / invalidate1_n2_w / invalidate_all_n2 / invalidate_if_* / purge_ttl_on_deadline_w.
// Drop into tests/ of mini-moka: every test fails on the pinned tree, passes after the fix: commits.
use mini_moka::unsync::Cache;
use std::time::Duration;

#[test]
fn invalidate_decrements_entry_count() {
    let mut c = Cache::new(10);
    c.insert(1, 1);
    c.insert(2, 2);
    c.invalidate(&1);
    assert_eq!(c.iter().count(), 1);
    assert_eq!(c.entry_count(), 1);
}

#[test]
fn invalidate_all_resets_entry_count() {
    let mut c = Cache::new(10);
    c.insert(1, 1);
    c.insert(2, 2);
    c.invalidate_all();
    assert_eq!(c.iter().count(), 0);
    assert_eq!(c.entry_count(), 0);
    assert_eq!(c.weighted_size(), 0);
}

#[test]
fn invalidate_entries_if_gives_back_weight_and_count() {
    let mut c = Cache::builder().max_capacity(10).weigher(|_k: &u32, v: &u32| *v).build();
    c.insert(1, 5);
    c.insert(2, 5);
    c.invalidate_entries_if(|k, _| *k == 1);
    assert_eq!(c.iter().count(), 1);
    assert_eq!(c.entry_count(), 1);
    assert_eq!(c.weighted_size(), 5);
    // C03: the freed room is usable again
    c.insert(3, 5);
    assert_eq!(c.get(&3), Some(&5));
    assert_eq!(c.get(&2), Some(&5));
}

#[test]
fn ttl_expiry_gives_back_weight() {
    let mut c = Cache::builder()
        .max_capacity(10)
        .weigher(|_k: &u32, v: &u32| *v)
        .time_to_live(Duration::from_millis(20))
        .build();
    c.insert(1, 5);
    c.insert(2, 5);
    std::thread::sleep(Duration::from_millis(60));
    assert_eq!(c.get(&1), None); // purges both
    assert_eq!(c.entry_count(), 0);
    assert_eq!(c.weighted_size(), 0);
    // C03: refill after expiry
    c.insert(3, 5);
    c.insert(4, 5);
    assert_eq!(c.get(&3), Some(&5));
    assert_eq!(c.get(&4), Some(&5));
}
