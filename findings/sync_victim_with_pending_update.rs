use mini_moka::sync::{Cache, ConcurrentCacheExt};

// A queued update of a resident that an admission (queued before it) picks as victim:
// the victim is un-counted with the NEW weight although the OLD one was counted.
#[test]
fn victim_with_pending_update_is_uncounted_with_its_counted_weight() {
    let cache: Cache<&'static str, u32> = Cache::builder()
        .max_capacity(100)
        .weigher(|_k, v: &u32| *v)
        .build();
    std::thread::sleep(std::time::Duration::from_millis(600)); // no inline housekeeping below
    cache.insert("a", 90);
    cache.sync();
    assert_eq!((cache.entry_count(), cache.weighted_size()), (1, 90));
    // make "b" popular (misses are recorded too); apply the reads
    for _ in 0..5 { assert!(cache.get(&"b").is_none()); }
    cache.sync();
    cache.insert("b", 20);   // does not fit: 90 + 20 > 100 -> admission, victim "a"
    cache.insert("a", 30);   // queued update of the victim: shared weight is now 30
    cache.sync();
    cache.sync();
    let phys: Vec<(&str, u32)> = cache.iter().map(|e| (*e.key(), *e.value())).collect();
    let phys_w: u64 = phys.iter().map(|(_, v)| *v as u64).sum();
    println!("phys={:?} entry_count={} weighted_size={}", phys, cache.entry_count(), cache.weighted_size());
    assert_eq!(cache.entry_count(), phys.len() as u64);
    assert_eq!(cache.weighted_size(), phys_w);
}
