use mini_moka::sync::{Cache, ConcurrentCacheExt};

#[test]
fn stale_reject_removes_newer_entry() {
    let cache: Cache<&'static str, u32> = Cache::new(1);
    std::thread::sleep(std::time::Duration::from_millis(600));
    cache.insert("a", 1);
    cache.sync();
    assert_eq!(cache.entry_count(), 1);
    cache.insert("b", 1);      // queued Upsert(b, e1)
    cache.invalidate(&"a");    // map: a removed, Remove(a) queued
    cache.insert("b", 2);      // update: queued Upsert(b, e2)
    cache.sync();
    let phys = cache.iter().count() as u64;
    println!("entry_count={} weighted={} phys={} get b={:?}", cache.entry_count(), cache.weighted_size(), phys, cache.get(&"b"));
    cache.sync();
    // refill: a fresh key into a physically empty cache of capacity 1
    cache.insert("c", 3);
    cache.sync();
    println!("after insert c: entry_count={} phys={} get c={:?}", cache.entry_count(), cache.iter().count(), cache.get(&"c"));
    cache.sync();
    cache.insert("d", 3);
    cache.sync();
    println!("after insert d: entry_count={} phys={} get d={:?}", cache.entry_count(), cache.iter().count(), cache.get(&"d"));
    assert_eq!(cache.entry_count(), cache.iter().count() as u64);
}
