// Lock-free twins of EntryInfo's deque-node accessors (Mutex<DeqNodes>), used as Kani stubs in the
// sync harnesses; see atomic_time.rs for the justification.
use super::{DeqNodes, EntryInfo, KeyDeqNodeAo, KeyDeqNodeWo};
use std::sync::Mutex;

#[allow(invalid_reference_casting)]
fn nodes<K>(e: &EntryInfo<K>) -> &mut DeqNodes<K> {
    unsafe {
        let p = &e.nodes as *const Mutex<DeqNodes<K>> as *mut Mutex<DeqNodes<K>>;
        (*p).get_mut().expect("lock poisoned")
    }
}
pub(crate) fn access_order_q_node<K>(e: &EntryInfo<K>) -> Option<KeyDeqNodeAo<K>> { nodes(e).access_order_q_node }
pub(crate) fn set_access_order_q_node<K>(e: &EntryInfo<K>, n: Option<KeyDeqNodeAo<K>>) { nodes(e).access_order_q_node = n; }
pub(crate) fn take_access_order_q_node<K>(e: &EntryInfo<K>) -> Option<KeyDeqNodeAo<K>> { nodes(e).access_order_q_node.take() }
pub(crate) fn write_order_q_node<K>(e: &EntryInfo<K>) -> Option<KeyDeqNodeWo<K>> { nodes(e).write_order_q_node }
pub(crate) fn set_write_order_q_node<K>(e: &EntryInfo<K>, n: Option<KeyDeqNodeWo<K>>) { nodes(e).write_order_q_node = n; }
pub(crate) fn take_write_order_q_node<K>(e: &EntryInfo<K>) -> Option<KeyDeqNodeWo<K>> { nodes(e).write_order_q_node.take() }
pub(crate) fn unset_q_nodes<K>(e: &EntryInfo<K>) {
    let n = nodes(e);
    n.access_order_q_node = None;
    n.write_order_q_node = None;
}

// ---- shadow copies of the two flags -------------------------------------------------------------
// CBMC loses constant values stored in an EntryInfo once the struct has been moved into its Arc
// (byte-wise move of a struct holding a futex Mutex), so `entry.is_admitted()` of a resident would
// look symbolic and handle_upsert's update path would drag the whole admission path along.
// The stubs keep a shadow of is_admitted / is_dirty for the residents the harness registered
// (looked up by ADDRESS: pointer equality on distinct objects is decided during symbolic
// execution) and always write through to the real atomics; unregistered entries use the real ones.
use std::sync::atomic::Ordering;
static mut REG: [*const (); 4] = [std::ptr::null(); 4];
static mut ADM: [bool; 4] = [false; 4];
static mut DIRTY: [bool; 4] = [false; 4];
static mut WEIGHT: [u32; 4] = [0; 4];

#[allow(static_mut_refs)]
pub(crate) fn register<K>(e: &EntryInfo<K>, i: usize, adm: bool, dirty: bool) {
    unsafe {
        REG[i] = e as *const EntryInfo<K> as *const ();
        ADM[i] = adm;
        DIRTY[i] = dirty;
        WEIGHT[i] = e.policy_weight.load(Ordering::Acquire);
    }
    e.is_admitted.store(adm, Ordering::Release);
    e.is_dirty.store(dirty, Ordering::Release);
}
#[allow(static_mut_refs)]
fn idx<K>(e: &EntryInfo<K>) -> usize {
    let p = e as *const EntryInfo<K> as *const ();
    unsafe {
        if p == REG[0] { 0 } else if p == REG[1] { 1 } else if p == REG[2] { 2 } else if p == REG[3] { 3 } else { 4 }
    }
}
#[allow(static_mut_refs)]
pub(crate) fn is_admitted<K>(e: &EntryInfo<K>) -> bool {
    let i = idx(e);
    if i < 4 { unsafe { ADM[i] } } else { e.is_admitted.load(Ordering::Acquire) }
}
#[allow(static_mut_refs)]
pub(crate) fn set_admitted<K>(e: &EntryInfo<K>, v: bool) {
    let i = idx(e);
    if i < 4 { unsafe { ADM[i] = v; } }
    e.is_admitted.store(v, Ordering::Release);
}
#[allow(static_mut_refs)]
pub(crate) fn is_dirty<K>(e: &EntryInfo<K>) -> bool {
    let i = idx(e);
    if i < 4 { unsafe { DIRTY[i] } } else { e.is_dirty.load(Ordering::Acquire) }
}
#[allow(static_mut_refs)]
pub(crate) fn set_dirty<K>(e: &EntryInfo<K>, v: bool) {
    let i = idx(e);
    if i < 4 { unsafe { DIRTY[i] = v; } }
    e.is_dirty.store(v, Ordering::Release);
}

#[allow(static_mut_refs)]
pub(crate) fn policy_weight<K>(e: &EntryInfo<K>) -> u32 {
    let i = idx(e);
    if i < 4 { unsafe { WEIGHT[i] } } else { e.policy_weight.load(Ordering::Acquire) }
}
#[allow(static_mut_refs)]
pub(crate) fn set_policy_weight<K>(e: &EntryInfo<K>, v: u32) {
    let i = idx(e);
    if i < 4 { unsafe { WEIGHT[i] = v; } }
    e.policy_weight.store(v, Ordering::Release);
}
/// registration with an explicit (possibly symbolic) weight
#[allow(static_mut_refs)]
pub(crate) fn register_w<K>(e: &EntryInfo<K>, i: usize, adm: bool, dirty: bool, w: u32) {
    register(e, i, adm, dirty);
    unsafe { WEIGHT[i] = w; }
    e.policy_weight.store(w, Ordering::Release);
}
