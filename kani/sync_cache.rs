// C09: Cache::schedule_write_op back-pressure loop (child module of sync::cache).
use super::*;
use crate::common::concurrent::{entry_info::EntryInfo, housekeeper::verif_housekeeper as vh, KvEntry, ValueEntry};
use crate::verif_models::common::{instant_at, IdH, Val};
use std::cell::Cell;
use std::hash::BuildHasherDefault;
use triomphe::Arc as TrioArc;

type BH = BuildHasherDefault<IdH>;
type Ca = Cache<u8, Val, BH>;
type Op = WriteOp<u8, Val>;
/// property checks are taken or skipped by a fresh nondeterministic choice (Kani's assert! is assert-then-assume:
/// behind a failing assertion nothing else would be reported on that path; see unsync_cache.rs)
macro_rules! chk {
    ($cond:expr, $msg:expr) => { if kani::any::<bool>() { assert!($cond, $msg) } };
}


struct DrainingInner { rx: crossbeam_channel::Receiver<Op>, calls: Cell<u32>, now: Instant }
impl InnerSync for DrainingInner {
    fn sync(&self, _max: usize) {
        self.calls.set(self.calls.get() + 1);
        // maintenance applies (= removes from the queue) what is pending
        let mut i = 0;
        while i < 4 { if let Ok(op) = self.rx.try_recv() { std::mem::forget(op); } i += 1; }
    }
    fn now(&self) -> Instant { self.now }
}

fn an_op(k: u8) -> Op {
    let now = Instant::new(instant_at(5, 0));
    let info = TrioArc::new(EntryInfo::new(now, 1));
    WriteOp::Remove(KvEntry::new(Arc::new(k), TrioArc::new(ValueEntry::new(Val { cls: 0, data: k }, info))))
}

/// Queue FULL, maintenance flag free, periodic-sync regime: the insert itself runs maintenance once
/// and then enqueues -- the loop exits without ever reaching the retry sleep (unwinding assertion +
/// unreachable sleep = termination for this bound).
#[kani::proof]
#[kani::unwind(6)]
fn schedule_write_op_on_a_full_queue_runs_maintenance_and_returns() {
    let cap: usize = 2;
    let (tx, rx) = crossbeam_channel::bounded::<Op>(cap);
    assert!(tx.try_send(an_op(0)).is_ok() && tx.try_send(an_op(1)).is_ok() && tx.is_full());
    let now = Instant::new(instant_at(100, 0));
    let inner = DrainingInner { rx, calls: Cell::new(0), now };
    // within the periodic interval (sync_after >= now): the regime a model queue of 2 slots can express;
    // the other regime (queue at its flush point) is decided by full_queue_always_triggers_maintenance
    let hk = Arc::new(vh::mk_housekeeper(false, Instant::new(instant_at(100, 0))));
    let r = Ca::schedule_write_op(&inner, &tx, an_op(2), now, Some(&hk));
    chk!(r.is_ok(), "C09: insert on a full queue must complete");
    chk!(inner.calls.get() == 1, "C09: the insert itself must perform the pending maintenance exactly once");
    chk!(tx.len() == 1, "C09: the new write op is queued after maintenance drained the queue");
    chk!(!vh::is_running(&hk), "C09: maintenance flag released");
    kani::cover!(true, "end reached");
    std::mem::forget(inner);
}

/// Queue with room: enqueues at once, at most one maintenance run.
#[kani::proof]
#[kani::unwind(6)]
fn schedule_write_op_with_room_enqueues_once() {
    let (tx, rx) = crossbeam_channel::bounded::<Op>(2);
    let busy: bool = kani::any();
    let now = Instant::new(instant_at(100, 0));
    let inner = DrainingInner { rx, calls: Cell::new(0), now };
    let sa: u64 = kani::any();
    kani::assume(sa < 1000);
    let hk = Arc::new(vh::mk_housekeeper(busy, Instant::new(instant_at(sa, 0))));
    let r = Ca::schedule_write_op(&inner, &tx, an_op(2), now, Some(&hk));
    chk!(r.is_ok() && tx.len() == 1, "C09: write op enqueued exactly once");
    chk!(inner.calls.get() <= 1 && (!busy || inner.calls.get() == 0), "C09: at most one maintenance run, none while another thread holds the flag");
    chk!(vh::is_running(&hk) == busy, "C09: flag state preserved");
    kani::cover!(inner.calls.get() == 1, "maintenance ran");
    kani::cover!(inner.calls.get() == 0, "maintenance skipped");
    std::mem::forget(inner);
}

/// Queue FULL and the maintenance flag held by ANOTHER thread at the first attempt (that thread is in
/// the tail of its run: it will not drain this queue any more). The other thread finishing is modelled
/// by the stub of the retry sleep, which releases the flag. The writer must try maintenance again on
/// its next round, run it itself, and complete: exactly two rounds. A writer that tries only once
/// spins for ever on the full queue (the unwinding assertion of the retry loop is the check).
static mut OTHER_HK: *const Housekeeper = std::ptr::null();
static mut SLEEPS: u32 = 0;
fn sleep_other_thread_finishes(_d: Duration) {
    unsafe { SLEEPS += 1; if !OTHER_HK.is_null() { vh::set_running(&*OTHER_HK, false); } }
}
#[kani::proof]
#[kani::unwind(6)]
#[kani::stub(std::thread::sleep, sleep_other_thread_finishes)]
fn schedule_write_op_retries_maintenance_until_the_queue_has_room() {
    let (tx, rx) = crossbeam_channel::bounded::<Op>(2);
    assert!(tx.try_send(an_op(0)).is_ok() && tx.try_send(an_op(1)).is_ok() && tx.is_full());
    let now = Instant::new(instant_at(100, 0));
    let inner = DrainingInner { rx, calls: Cell::new(0), now };
    let hk = Arc::new(vh::mk_housekeeper(true, Instant::new(instant_at(100, 0))));   // flag busy: another thread
    unsafe { OTHER_HK = &**(&hk) as *const Housekeeper; }
    kani::cover!(true, "inputs chosen");
    let r = Ca::schedule_write_op(&inner, &tx, an_op(2), now, Some(&hk));
    chk!(r.is_ok(), "C09: insert on a full queue must complete once the other thread's maintenance run has ended");
    chk!(unsafe { SLEEPS } == 1, "C09: one retry round after the flag became free");
    chk!(inner.calls.get() == 1, "C09: the blocked writer must run the pending maintenance itself when it retries");
    chk!(tx.len() == 1 && !vh::is_running(&hk), "C09: op queued, flag released");
    kani::cover!(true, "end reached");
    std::mem::forget(inner);
}

// ================================================================================================
// C07: Cache::invalidate(k) of an entry that lookups currently HIDE (idle deadline passed by its
// last_accessed, or written before the invalidate_all watermark) but that is still in the map: it must be
// removed all the same -- a read recorded earlier and applied later would otherwise make it observable
// again after invalidate returned.
// ================================================================================================
fn invalidate_hidden(tc: usize, ttl: bool, tti: bool, va: bool) {
    let st = vs::mk_state(&vs::mk_cfg(2, Some(3), ttl, tti, va, tc));
    let cache: Ca = Cache { base: vs::base_of(st) };
    assert!(!cache.base.contains_key(&0u8), "VERIF-BOUND: harness time class must hide key 0");
    cache.invalidate(&0u8);
    chk!(cache.base.inner.verif_in_map(0) == false, "C07: invalidate(k) returned but k is still in the map (hidden only by its timestamps: an applied read or nothing at all can bring it back)");
    chk!(cache.base.inner.verif_in_map(1), "C07: invalidate(k) must not affect other keys");
    chk!(cache.base.write_op_ch.len() == 1, "C07,C10,C11: the removal must be queued for maintenance");
    kani::cover!(true, "end reached");
    std::mem::forget(cache);
}
#[kani::proof]
#[kani::unwind(6)]
#[kani::stub(std::time::Instant::now, vs::now_stub)]
fn invalidate_removes_an_idle_expired_entry() { invalidate_hidden(3, false, true, false) }
#[kani::proof]
#[kani::unwind(6)]
#[kani::stub(std::time::Instant::now, vs::now_stub)]
fn invalidate_removes_an_entry_below_the_watermark() { invalidate_hidden(4, false, false, true) }

// ================================================================================================
// C16 / C05 / C06 (sync, the real iterator src/sync/iter.rs over the map model): iteration yields every
// live entry exactly once and no expired one, judged at the clock reading of EACH next() call: the
// clock moves between iter() and next() (an iterator created while the entry was alive must not
// yield it once its deadline has passed).
// ================================================================================================
fn sync_iter_moving_clock(tc_create: usize, tc_next: usize, ttl: bool, tti: bool, va: bool) {
    vs::set_now(vs::tc_now(tc_create));
    let st = vs::mk_state(&vs::mk_cfg(2, Some(3), ttl, tti, va, tc_next));   // timestamps of class tc_next
    let hid = [vs::hidden_at(&st, 0), vs::hidden_at(&st, 1)];               // at the LATER reading
    vs::set_now(vs::tc_now(tc_create));
    let cache: Ca = Cache { base: vs::base_of(st) };
    let mut it = cache.iter();
    vs::set_now(vs::tc_now(tc_next));                                        // the clock advances
    let mut seen = [0u32; 2];
    let mut i = 0;
    while i < 4 {
        if let Some(r) = it.next() { let k = *r.key() as usize; chk!(k < 2, "C16,C01: iteration yields a key that was never inserted"); seen[k] += 1; }
        i += 1;
    }
    drop(it);
    let mut k = 0;
    while k < 2 {
        chk!(seen[k] <= 1, "C16: iteration yields an entry twice");
        chk!((seen[k] == 1) == !hid[k], "C16,C05,C06,C07: iteration must yield exactly the entries that are live at the clock reading of the next() call (never an expired or invalidated one, every live one)");
        k += 1;
    }
    chk!(cache.base.inner.verif_read_len() == 0 && cache.base.write_op_ch.len() == 0, "C15: iteration records nothing");
    kani::cover!(true, "end reached");
    std::mem::forget(cache);
}
#[kani::proof]
#[kani::unwind(6)]
#[kani::stub(std::time::Instant::now, vs::now_stub)]
fn sync_iter_skips_entry_that_expires_after_iter_was_created() { sync_iter_moving_clock(8, 2, true, false, false) }
#[kani::proof]
#[kani::unwind(6)]
#[kani::stub(std::time::Instant::now, vs::now_stub)]
fn sync_iter_yields_each_live_entry_once() { sync_iter_moving_clock(1, 1, true, true, true) }

// ================================================================================================
// C07 / C11: Cache::invalidate of a key whose insert is still queued (not yet admitted)
// ================================================================================================
use crate::sync::base_cache::verif_sync as vs;

#[kani::proof]
#[kani::unwind(6)]
#[kani::stub(std::time::Instant::now, vs::now_stub)]
fn invalidate_of_a_pending_insert_queues_its_removal() {
    let st = vs::mk_state(&vs::mk_cfg(1, Some(3), false, false, false, 1));
    let pending = vs::add_pending(&st, 1);            // insert(1) happened, its Upsert is queued
    let cache: Ca = Cache { base: vs::base_of(st) };
    assert!(cache.base.write_op_ch.len() == 1);
    cache.invalidate(&1u8);
    chk!(!cache.base.contains_key(&1u8), "C07: invalidated key still observable");
    chk!(cache.base.contains_key(&0u8), "C07: invalidate(k) must not affect other keys");
    // the Remove must follow the queued Upsert: otherwise maintenance admits an entry that left the map
    // and its deque nodes pin the key for ever (C11) and entry_count drifts (C10)
    chk!(cache.base.write_op_ch.len() == 2, "C11,C10,C07: invalidate of a pending entry must queue a Remove behind its Upsert");
    let first = cache.base.inner.verif_recv_write();
    let second = cache.base.inner.verif_recv_write();
    chk!(matches!(first, Some(WriteOp::Upsert { .. })) && matches!(second, Some(WriteOp::Remove(_))), "C11,C07: queue order Upsert then Remove");
    kani::cover!(true, "end reached");
    std::mem::forget(first); std::mem::forget(second); std::mem::forget(pending);
    std::mem::forget(cache);
}

// ================================================================================================
// C15 (sync, public wrappers): contains_key and iteration are not maintenance points. With write ops
// queued and the housekeeper due, the public Cache::contains_key / Cache::iter must neither run nor
// trigger maintenance (which would let TinyLFU judge a pending insert before queued reads are
// applied) nor record anything. Housekeeper::try_sync is stubbed by a counting twin.
// ================================================================================================
static mut TRY_SYNC_CALLS: u32 = 0;
fn try_sync_counting<T: InnerSync>(_hk: &Housekeeper, _cache: &T) -> bool {
    unsafe { TRY_SYNC_CALLS += 1; }
    false
}
#[kani::proof]
#[kani::unwind(6)]
#[kani::stub(std::time::Instant::now, vs::now_stub)]
#[kani::stub(Housekeeper::try_sync, try_sync_counting)]
fn contains_key_and_iter_are_not_maintenance_points() {
    let st = vs::mk_state(&vs::mk_cfg(1, Some(1), false, false, false, 1));
    let pending = vs::add_pending(&st, 1);            // insert(1) happened, its Upsert is queued
    let mut base = vs::base_of(st);
    // a housekeeper that is due (sync_after >= now: the inline regime of should_apply)
    base.housekeeper = Some(Arc::new(vh::mk_housekeeper(false, Instant::new(instant_at(1_000_000, 0)))));
    let cache: Ca = Cache { base };
    let c0 = cache.contains_key(&0u8);
    let c1 = cache.contains_key(&1u8);
    let c2 = cache.contains_key(&2u8);
    chk!(c0 && c1 && !c2, "C01,C03: contains_key sees residents and pending inserts, not absent keys");
    let mut it = cache.iter();
    let mut seen = 0u32;
    let mut i = 0;
    while i < 4 { if it.next().is_some() { seen += 1; } i += 1; }
    drop(it);
    chk!(seen == 2, "C16: iteration yields every live entry exactly once");
    chk!(unsafe { TRY_SYNC_CALLS } == 0, "C15: contains_key / iteration must not run or trigger maintenance (they would change which reads TinyLFU has seen when a pending insert is judged)");
    chk!(cache.base.write_op_ch.len() == 1 && cache.base.inner.verif_read_len() == 0, "C15,C14: contains_key / iteration must not record or apply anything");
    // get, by contrast, is a maintenance point: exactly one attempt
    let _ = cache.get(&0u8);
    chk!(unsafe { TRY_SYNC_CALLS } == 1, "C09: a due housekeeper must be tried by get");
    kani::cover!(true, "end reached");
    std::mem::forget(pending);
    std::mem::forget(cache);
}

// ================================================================================================
// C17 (sync): initial_capacity has no observable effect: apart from the map's allocation hint the
// cache is built in the same state (in particular the popularity sketch is not enabled early, which
// would let reads made while the cache is still nearly empty decide later admissions).
// ================================================================================================
#[kani::proof]
#[kani::unwind(6)]
#[kani::stub(std::time::Instant::now, vs::now_stub)]
fn sync_initial_capacity_is_inert() {
    let n: u64 = kani::any();
    let init: usize = kani::any();
    kani::assume(init < (1usize << 40));
    let a: Ca = CacheBuilder::<u8, Val, Cache<u8, Val>>::default().max_capacity(n).build_with_hasher(BH::default());
    let b: Ca = CacheBuilder::<u8, Val, Cache<u8, Val>>::default().max_capacity(n).initial_capacity(init).build_with_hasher(BH::default());
    let u: Ca = CacheBuilder::<u8, Val, Cache<u8, Val>>::default().initial_capacity(init).build_with_hasher(BH::default());
    chk!(a.base.inner.verif_sketch_state() == (false, true), "C13,C17: a fresh cache starts with the popularity sketch disabled and unallocated");
    chk!(b.base.inner.verif_sketch_state() == a.base.inner.verif_sketch_state(), "C17: initial_capacity changes the popularity-sketch state of a fresh cache (observable through later admissions)");
    chk!(u.base.inner.verif_sketch_state() == (false, true), "C17: initial_capacity changes the popularity-sketch state of an unbounded cache");
    chk!(b.policy().max_capacity() == Some(n) && b.entry_count() == 0 && b.weighted_size() == 0, "C17: initial_capacity leaks into policy or counters");
    kani::cover!(n == 0, "capacity zero");
    kani::cover!(true, "end reached");
    std::mem::forget(a); std::mem::forget(b); std::mem::forget(u);
}

// (a public-API history on the sync cache -- insert; sync; drop with a drop-counting value and the real housekeeper -- gave no
//  verdict within 10 min even for a single insert: not instantiated; whole-cache drop of the sync cache is not decided)
