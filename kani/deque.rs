// Accessors into common::deque private fields for the harnesses of other modules
// (child module of common::deque; cfg(kani) only; read-only).
use super::{DeqCursor, DeqNode, Deque};
use std::ptr::NonNull;

pub(crate) fn head<T>(d: &Deque<T>) -> Option<NonNull<DeqNode<T>>> { d.head }
pub(crate) fn tail<T>(d: &Deque<T>) -> Option<NonNull<DeqNode<T>>> { d.tail }
pub(crate) fn len<T>(d: &Deque<T>) -> usize { d.len }
pub(crate) fn next<T>(n: NonNull<DeqNode<T>>) -> Option<NonNull<DeqNode<T>>> { unsafe { n.as_ref() }.next }
pub(crate) fn prev<T>(n: NonNull<DeqNode<T>>) -> Option<NonNull<DeqNode<T>>> { unsafe { n.as_ref() }.prev }
pub(crate) fn cursor_is_none<T>(d: &Deque<T>) -> bool { d.cursor.is_none() }
pub(crate) fn cursor_node<T>(d: &Deque<T>) -> Option<NonNull<DeqNode<T>>> {
    match d.cursor { Some(DeqCursor::Node(n)) => Some(n), _ => None }
}
pub(crate) fn cursor_is_done<T>(d: &Deque<T>) -> bool { matches!(d.cursor, Some(DeqCursor::Done)) }
pub(crate) fn set_cursor_node<T>(d: &mut Deque<T>, n: NonNull<DeqNode<T>>) { d.cursor = Some(DeqCursor::Node(n)); }
pub(crate) fn set_cursor_done<T>(d: &mut Deque<T>) { d.cursor = Some(DeqCursor::Done); }

/// Well-formedness of a list of at most MAXN nodes; returns the nodes in order and their number.
/// Checks: head.prev == None, tail.next == None, next/prev mutually inverse, len == #nodes,
/// empty list <=> head == tail == None.
pub(crate) fn walk<T, const MAXN: usize>(d: &Deque<T>) -> ([Option<NonNull<DeqNode<T>>>; MAXN], usize, bool) {
    let mut nodes: [Option<NonNull<DeqNode<T>>>; MAXN] = [None; MAXN];
    let mut ok = true;
    let mut cnt = 0usize;
    let mut cur = d.head;
    let mut last: Option<NonNull<DeqNode<T>>> = None;
    let mut i = 0;
    while i < MAXN {
        if let Some(n) = cur {
            ok &= prev(n) == last;
            nodes[i] = Some(n);
            cnt += 1;
            last = Some(n);
            cur = next(n);
        }
        i += 1;
    }
    ok &= cur.is_none(); // no more than MAXN nodes
    ok &= d.tail == last;
    ok &= d.len == cnt;
    (nodes, cnt, ok)
}

// =====================================================================================================
// Harness family DQ: one operation of the intrusive list from an ARBITRARY well-formed list of
// length L in 0..=4 (concrete per harness), symbolic cursor in {None, Node(i), Done}, symbolic
// target node j. Inductive: post-state is again a well-formed list, so sequences of any length are
// covered as far as every operation's neighbourhood looks like one in a list of <= 4 nodes
// (a mutation touches the node, its two neighbours, head, tail, cursor).
// Elements are drop-tracking: every element is dropped at most once, and exactly when specified.
// =====================================================================================================
use super::CacheRegion;

static mut DROPPED: [u8; 8] = [0; 8];

pub(crate) struct El(pub u8);
impl Drop for El {
    #[allow(static_mut_refs)]
    fn drop(&mut self) {
        unsafe {
            DROPPED[self.0 as usize] += 1;
        }
    }
}
#[allow(static_mut_refs)]
fn dropped(i: usize) -> u8 { unsafe { DROPPED[i] } }

const M: usize = 5;

struct L {
    d: Deque<El>,
    nodes: [Option<NonNull<DeqNode<El>>>; M],
    len: usize,
}

/// list [0, 1, .., len-1] built with the real push_back; cursor symbolic.
fn mk(len: usize) -> L {
    let mut d: Deque<El> = Deque::new(CacheRegion::MainProbation);
    let mut nodes = [None; M];
    let mut i = 0;
    while i < len {
        nodes[i] = Some(d.push_back(Box::new(DeqNode::new(El(i as u8)))));
        i += 1;
    }
    let c: u8 = kani::any();
    kani::assume((c as usize) <= len + 1);
    if (c as usize) < len {
        d.cursor = Some(DeqCursor::Node(nodes[c as usize].unwrap()));
    } else if c as usize == len {
        d.cursor = Some(DeqCursor::Done);
    } else {
        d.cursor = None;
    }
    L { d, nodes, len }
}

/// expected order given as ids; 255 = end
fn assert_order(d: &Deque<El>, exp: &[u8; M], n: usize) {
    let (nodes, cnt, ok) = walk::<El, M>(d);
    assert!(ok, "C08:DQ list well-formed after the operation (head/tail/prev/next/len)");
    assert!(cnt == n, "C08:DQ number of nodes");
    let mut i = 0;
    while i < M {
        if i < n {
            let e = unsafe { &nodes[i].unwrap().as_ref().element };
            assert!(e.0 == exp[i], "C12:DQ node order after the operation");
        }
        i += 1;
    }
}

#[derive(Clone, Copy, PartialEq)]
enum Cur { Nil, At(u8), Done }
fn cur_of(l: &L) -> Cur {
    match l.d.cursor {
        None => Cur::Nil,
        Some(DeqCursor::Done) => Cur::Done,
        Some(DeqCursor::Node(n)) => Cur::At(unsafe { n.as_ref().element.0 }),
    }
}
/// cursor after the node with id `j` (whose old successor has id `succ`, 255 = none) left its place
fn cur_after_removal(c: Cur, j: u8, succ: u8) -> Cur {
    match c {
        Cur::At(x) if x == j => if succ == 255 { Cur::Done } else { Cur::At(succ) },
        o => o,
    }
}
fn assert_cursor(l: &L, exp: Cur) {
    let got = cur_of(l);
    assert!(got == exp, "C08:DQ cursor stays inside the list (advanced past a removed/moved node)");
}
fn no_drops(len: usize) {
    let mut i = 0;
    while i < M { if i < len + 1 { assert!(dropped(i) == 0, "C11:DQ no element dropped by this operation"); } i += 1; }
}

fn any_j(len: usize) -> usize {
    let j: usize = kani::any();
    kani::assume(j < len);
    j
}

fn dq_move_to_back(len: usize) {
    let mut l = mk(len);
    let j = any_j(len);
    let c0 = cur_of(&l);
    unsafe { l.d.move_to_back(l.nodes[j].unwrap()) };
    let mut exp = [255u8; M];
    let mut k = 0; let mut i = 0;
    while i < len { if i != j { exp[k] = i as u8; k += 1; } i += 1; }
    exp[k] = j as u8;
    assert_order(&l.d, &exp, len);
    let expc = if j + 1 == len { c0 } else { cur_after_removal(c0, j as u8, (j + 1) as u8) };
    assert_cursor(&l, expc);
    no_drops(len);
    if len > 1 { kani::cover!(j == 0, "move head"); }
    kani::cover!(j + 1 == len, "move tail (no-op)");
    kani::cover!(c0 == Cur::At(j as u8), "cursor on moved node");
    std::mem::forget(l);
}

fn dq_unlink(len: usize, and_drop: bool) {
    let mut l = mk(len);
    let j = any_j(len);
    let c0 = cur_of(&l);
    let node = l.nodes[j].unwrap();
    if and_drop { unsafe { l.d.unlink_and_drop(node) } } else { unsafe { l.d.unlink(node) } }
    let mut exp = [255u8; M];
    let mut k = 0; let mut i = 0;
    while i < len { if i != j { exp[k] = i as u8; k += 1; } i += 1; }
    assert_order(&l.d, &exp, len - 1);
    assert_cursor(&l, cur_after_removal(c0, j as u8, if j + 1 < len { (j + 1) as u8 } else { 255 }));
    let mut i = 0;
    while i < len {
        if and_drop && i == j { assert!(dropped(i) == 1, "C11:DQ unlink_and_drop drops the element exactly once"); }
        else { assert!(dropped(i) == 0, "C11:DQ other elements not dropped"); }
        i += 1;
    }
    if !and_drop {
        // detached node is clean and not "contained"
        let n = unsafe { node.as_ref() };
        assert!(n.next.is_none() && n.prev.is_none(), "C08:DQ unlinked node has no dangling links");
        assert!(!l.d.contains(n) , "C08:DQ contains() is false for an unlinked node");
        unsafe { std::mem::forget(Box::from_raw(node.as_ptr())) };
    }
    kani::cover!(j == 0, "unlink head");
    kani::cover!(j + 1 == len, "unlink tail");
    kani::cover!(c0 == Cur::At(j as u8), "cursor on unlinked node");
    std::mem::forget(l);
}

fn dq_pop_front(len: usize) {
    let mut l = mk(len);
    let c0 = cur_of(&l);
    let b = l.d.pop_front();
    if len == 0 {
        assert!(b.is_none(), "C08:DQ pop_front on empty list is None");
        assert_order(&l.d, &[255u8; M], 0);
    } else {
        let b = b.unwrap();
        assert!(b.element.0 == 0 && b.next.is_none() && b.prev.is_none(), "C12:DQ pop_front returns the head, detached");
        let mut exp = [255u8; M];
        let mut i = 1;
        while i < len { exp[i - 1] = i as u8; i += 1; }
        assert_order(&l.d, &exp, len - 1);
        assert_cursor(&l, cur_after_removal(c0, 0, if len > 1 { 1 } else { 255 }));
        no_drops(len);
        std::mem::forget(b);
    }
    std::mem::forget(l);
}

fn dq_push_back(len: usize) {
    let mut l = mk(len);
    let c0 = cur_of(&l);
    let n = l.d.push_back(Box::new(DeqNode::new(El(len as u8))));
    let mut exp = [255u8; M];
    let mut i = 0;
    while i <= len { exp[i] = i as u8; i += 1; }
    assert_order(&l.d, &exp, len + 1);
    assert_cursor(&l, c0);
    assert!(l.d.contains(unsafe { n.as_ref() }), "C08:DQ contains() is true for a linked node");
    no_drops(len + 1);
    std::mem::forget(l);
}

fn dq_move_front_to_back(len: usize) {
    let mut l = mk(len);
    let c0 = cur_of(&l);
    l.d.move_front_to_back();
    let mut exp = [255u8; M];
    if len > 0 {
        let mut i = 1;
        while i < len { exp[i - 1] = i as u8; i += 1; }
        exp[len - 1] = 0;
    }
    assert_order(&l.d, &exp, len);
    let expc = if len <= 1 { c0 } else { cur_after_removal(c0, 0, 1) };
    assert_cursor(&l, expc);
    no_drops(len);
    std::mem::forget(l);
}

fn dq_iter_next(len: usize) {
    let mut l = mk(len);
    let c0 = cur_of(&l);
    let got = { let mut r = &mut l.d; r.next().map(|e| e.0) };
    // cursor semantics: None -> start at head; Node(i) -> yield i; Done -> None and reset
    let (exp_el, exp_c) = match c0 {
        Cur::Nil => if len == 0 { (None, Cur::Nil) } else { (Some(0u8), if len > 1 { Cur::At(1) } else { Cur::Done }) },
        Cur::At(i) => (Some(i), if (i as usize) + 1 < len { Cur::At(i + 1) } else { Cur::Done }),
        Cur::Done => (None, Cur::Nil),
    };
    assert!(got == exp_el, "C08:DQ iterator yields the element under the cursor");
    assert_cursor(&l, exp_c);
    let mut exp = [255u8; M];
    let mut i = 0;
    while i < len { exp[i] = i as u8; i += 1; }
    assert_order(&l.d, &exp, len);
    no_drops(len);
    std::mem::forget(l);
}

fn dq_peek_contains(len: usize) {
    let l = mk(len);
    match l.d.peek_front() {
        None => assert!(len == 0, "C08:DQ peek_front None iff empty"),
        Some(n) => assert!(len > 0 && n.element.0 == 0, "C12:DQ peek_front is the head"),
    }
    assert!(l.d.peek_front_ptr() == l.d.head, "C12:DQ peek_front_ptr is the head");
    let mut i = 0;
    while i < len {
        assert!(l.d.contains(unsafe { l.nodes[i].unwrap().as_ref() }), "C08:DQ contains() true for every member");
        if i + 1 < len {
            assert!(DeqNode::next_node_ptr(l.nodes[i].unwrap()) == l.nodes[i + 1], "C12:DQ next_node_ptr follows list order");
        } else {
            assert!(DeqNode::next_node_ptr(l.nodes[i].unwrap()).is_none(), "C12:DQ next_node_ptr of tail is None");
        }
        i += 1;
    }
    let fresh = DeqNode::new(El(7));
    assert!(!l.d.contains(&fresh), "C08:DQ contains() false for a fresh node");
    std::mem::forget(fresh);
    std::mem::forget(l);
}

/// real drop glue of the list: every element dropped exactly once (C11), no double free (C08).
fn dq_drop(len: usize) {
    let l = mk(len);
    let L { d, .. } = l;
    drop(d);
    let mut i = 0;
    while i < M {
        if i < len { assert!(dropped(i) == 1, "C11:DQ dropping the list drops every element exactly once"); }
        i += 1;
    }
}

macro_rules! dq {
    ($f:ident, $($name:ident => ($($arg:expr),*)),*) => {
        $( #[kani::proof] #[kani::unwind(7)] fn $name() { $f($($arg),*) } )*
    };
}
dq!(dq_move_to_back, dq_mtb_1 => (1), dq_mtb_2 => (2), dq_mtb_3 => (3), dq_mtb_4 => (4));
dq!(dq_unlink, dq_unlink_1 => (1, false), dq_unlink_2 => (2, false), dq_unlink_3 => (3, false), dq_unlink_4 => (4, false));
dq!(dq_unlink, dq_unlinkdrop_1 => (1, true), dq_unlinkdrop_2 => (2, true), dq_unlinkdrop_3 => (3, true), dq_unlinkdrop_4 => (4, true));
dq!(dq_pop_front, dq_pop_0 => (0), dq_pop_1 => (1), dq_pop_2 => (2), dq_pop_3 => (3), dq_pop_4 => (4));
dq!(dq_push_back, dq_push_0 => (0), dq_push_1 => (1), dq_push_2 => (2), dq_push_3 => (3), dq_push_4 => (4));
dq!(dq_move_front_to_back, dq_mftb_0 => (0), dq_mftb_1 => (1), dq_mftb_2 => (2), dq_mftb_3 => (3), dq_mftb_4 => (4));
dq!(dq_iter_next, dq_next_0 => (0), dq_next_1 => (1), dq_next_2 => (2), dq_next_3 => (3), dq_next_4 => (4));
dq!(dq_peek_contains, dq_peek_0 => (0), dq_peek_1 => (1), dq_peek_2 => (2), dq_peek_3 => (3), dq_peek_4 => (4));
dq!(dq_drop, dq_drop_0 => (0), dq_drop_1 => (1), dq_drop_2 => (2), dq_drop_3 => (3), dq_drop_4 => (4));

/// vacuity twin: the family's builder + walker reach the end (must FAIL).
#[kani::proof]
#[kani::unwind(7)]
fn dq_twin_must_fail() {
    let mut l = mk(3);
    let j = any_j(3);
    unsafe { l.d.move_to_back(l.nodes[j].unwrap()) };
    let (_, cnt, ok) = walk::<El, M>(&l.d);
    assert!(!(ok && cnt == 3), "VACUITY-TWIN: reached the end of the deque harness");
    std::mem::forget(l);
}
