// Accessors into common::deque private fields for the harnesses of other modules
// (child module of common::deque; cfg(kani) only; read-only).
use super::{DeqCursor, DeqNode, Deque};
use std::ptr::NonNull;

pub(crate) fn head<T>(d: &Deque<T>) -> Option<NonNull<DeqNode<T>>> { d.head }
pub(crate) fn tail<T>(d: &Deque<T>) -> Option<NonNull<DeqNode<T>>> { d.tail }
pub(crate) fn len<T>(d: &Deque<T>) -> usize { d.len }
pub(crate) fn next<T>(n: NonNull<DeqNode<T>>) -> Option<NonNull<DeqNode<T>>> { unsafe { n.as_ref() }.next }
pub(crate) fn prev<T>(n: NonNull<DeqNode<T>>) -> Option<NonNull<DeqNode<T>>> { unsafe { n.as_ref() }.prev }
pub(crate) fn cursor_is_none<T>(d: &Deque<T>) -> bool { d.cursor.is_none() }
pub(crate) fn cursor_node<T>(d: &Deque<T>) -> Option<NonNull<DeqNode<T>>> {
    match d.cursor { Some(DeqCursor::Node(n)) => Some(n), _ => None }
}
pub(crate) fn cursor_is_done<T>(d: &Deque<T>) -> bool { matches!(d.cursor, Some(DeqCursor::Done)) }
pub(crate) fn set_cursor_node<T>(d: &mut Deque<T>, n: NonNull<DeqNode<T>>) { d.cursor = Some(DeqCursor::Node(n)); }
pub(crate) fn set_cursor_done<T>(d: &mut Deque<T>) { d.cursor = Some(DeqCursor::Done); }

/// Well-formedness of a list of at most MAXN nodes; returns the nodes in order and their number.
/// Checks: head.prev == None, tail.next == None, next/prev mutually inverse, len == #nodes,
/// empty list <=> head == tail == None.
pub(crate) fn walk<T, const MAXN: usize>(d: &Deque<T>) -> ([Option<NonNull<DeqNode<T>>>; MAXN], usize, bool) {
    let mut nodes: [Option<NonNull<DeqNode<T>>>; MAXN] = [None; MAXN];
    let mut ok = true;
    let mut cnt = 0usize;
    let mut cur = d.head;
    let mut last: Option<NonNull<DeqNode<T>>> = None;
    let mut i = 0;
    while i < MAXN {
        if let Some(n) = cur {
            ok &= prev(n) == last;
            nodes[i] = Some(n);
            cnt += 1;
            last = Some(n);
            cur = next(n);
        }
        i += 1;
    }
    ok &= cur.is_none(); // no more than MAXN nodes
    ok &= d.tail == last;
    ok &= d.len == cnt;
    (nodes, cnt, ok)
}
