// Lock-free twins of AtomicInstant's accessors, used as Kani stubs in the sync harnesses.
// std's futex RwLock explores its contended spin loops under symbolic execution (every timestamp
// read costs five unrolled loop bodies); in a single-threaded execution an uncontended lock always
// succeeds at once and is never poisoned, so going straight to the protected value is equivalent.
// (Native replays do not apply stubs: they take the real locks.)
use super::{AtomicInstant, Instant};
use std::sync::RwLock;

#[allow(invalid_reference_casting)]
fn slot(a: &AtomicInstant) -> &mut Option<Instant> {
    unsafe {
        let p = &a.instant as *const RwLock<Option<Instant>> as *mut RwLock<Option<Instant>>;
        (*p).get_mut().expect("lock poisoned")
    }
}
pub(crate) fn instant(a: &AtomicInstant) -> Option<Instant> { *slot(a) }
pub(crate) fn is_set(a: &AtomicInstant) -> bool { slot(a).is_some() }
pub(crate) fn set_instant(a: &AtomicInstant, t: Instant) { *slot(a) = Some(t); }
