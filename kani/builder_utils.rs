// C17: ensure_expirations_or_panic panics if and only if a duration exceeds 1000 years.
use super::ensure_expirations_or_panic;
use std::time::Duration;

const MAX_S: u64 = 1_000 * 365 * 24 * 3600;

fn any_opt_dur() -> Option<Duration> {
    if kani::any() {
        let s: u64 = kani::any();
        let n: u32 = kani::any();
        kani::assume(n < 1_000_000_000);
        Some(Duration::new(s, n))
    } else {
        None
    }
}
fn within(d: Option<Duration>) -> bool {
    match d {
        None => true,
        Some(d) => d.as_secs() < MAX_S || (d.as_secs() == MAX_S && d.subsec_nanos() == 0),
    }
}

/// within the limit (incl. exactly 1000 years, incl. absent): returns, no panic.
#[kani::proof]
fn within_limit_never_panics() {
    let (ttl, tti) = (any_opt_dur(), any_opt_dur());
    kani::assume(within(ttl) && within(tti));
    ensure_expirations_or_panic(ttl, tti);
    kani::cover!(ttl == Some(Duration::from_secs(MAX_S)), "exactly 1000 years accepted");
    kani::cover!(true, "end reached");
}

/// beyond the limit (from 1000 years + 1 ns): the call never returns. The only failing checks of
/// this harness must be the two documented assertions; the marker after the call must stay unreached.
#[kani::proof]
fn beyond_limit_always_panics() {
    let (ttl, tti) = (any_opt_dur(), any_opt_dur());
    kani::assume(!within(ttl) || !within(tti));
    ensure_expirations_or_panic(ttl, tti);
    assert!(false, "C17: build accepted a time_to_live/time_to_idle longer than 1000 years");
}
