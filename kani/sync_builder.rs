// C17 (sync): the builder's knobs reach policy() unchanged.
use super::CacheBuilder;
use crate::sync::Cache;
use crate::verif_models::common::{instant_at, IdH, Val};
use std::hash::BuildHasherDefault;
use std::time::Duration;

type BH = BuildHasherDefault<IdH>;
const MAX_S: u64 = 1_000 * 365 * 24 * 3600;
fn now_stub() -> std::time::Instant { instant_at(1000, 0) }
fn any_ok_dur() -> Option<Duration> {
    if kani::any() {
        let s: u64 = kani::any();
        let n: u32 = kani::any();
        kani::assume(n < 1_000_000_000 && (s < MAX_S || (s == MAX_S && n == 0)));
        Some(Duration::new(s, n))
    } else { None }
}

#[kani::proof]
#[kani::unwind(6)]
#[kani::stub(std::time::Instant::now, now_stub)]
fn sync_policy_reports_exactly_the_knobs() {
    let cap: Option<u64> = if kani::any() { Some(kani::any()) } else { None };
    let (ttl, tti) = (any_ok_dur(), any_ok_dur());
    let mut b: CacheBuilder<u8, Val, Cache<u8, Val>> = CacheBuilder::default();
    if let Some(c) = cap { b = b.max_capacity(c); }
    if let Some(d) = ttl { b = b.time_to_live(d); }
    if let Some(d) = tti { b = b.time_to_idle(d); }
    let cache = b.build_with_hasher(BH::default());
    let p = cache.policy();
    assert!(p.max_capacity() == cap, "C17: sync policy().max_capacity() != configured");
    assert!(p.time_to_live() == ttl && p.time_to_idle() == tti, "C17: sync policy() durations != configured");
    assert!(cache.entry_count() == 0 && cache.weighted_size() == 0, "C17,C10: fresh sync cache not empty");
    kani::cover!(cap == Some(0), "capacity zero");
    kani::cover!(true, "end reached");
    std::mem::forget(cache);
}

#[kani::proof]
#[kani::unwind(6)]
#[kani::stub(std::time::Instant::now, now_stub)]
fn sync_builder_new_equals_max_capacity() {
    let n: u64 = kani::any();
    let a = CacheBuilder::<u8, Val, Cache<u8, Val>>::new(n).build_with_hasher(BH::default());
    // initial capacities the allocator could not serve anyway (>= 2^40 entries) are outside the claim:
    // Inner::new adds the write-queue size to it (usize overflow only within 384 of usize::MAX)
    let init: usize = kani::any();
    kani::assume(init < (1usize << 40));
    let b = CacheBuilder::<u8, Val, Cache<u8, Val>>::default().max_capacity(n).initial_capacity(init).build_with_hasher(BH::default());
    assert!(a.policy().max_capacity() == Some(n) && b.policy().max_capacity() == Some(n), "C17: CacheBuilder::new(n) == max_capacity(n)");
    assert!(a.policy().time_to_live().is_none() && a.policy().time_to_idle().is_none(), "C17: no expiry unless configured");
    kani::cover!(true, "end reached");
    std::mem::forget(a); std::mem::forget(b);
}
