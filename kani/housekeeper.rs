// C09: the housekeeper's flag discipline and trigger conditions (child module of housekeeper).
use super::*;
use crate::common::concurrent::constants::{READ_LOG_SIZE, WRITE_LOG_SIZE};
use crate::verif_models::common::instant_at;
use std::cell::Cell;

fn inst(s: u64, n: u32) -> Instant { Instant::new(instant_at(s, n)) }

pub(crate) fn mk_housekeeper(running: bool, sync_after: Instant) -> Housekeeper {
    Housekeeper { is_sync_running: AtomicBool::new(running), sync_after: AtomicInstant::new(sync_after) }
}
pub(crate) fn is_running(h: &Housekeeper) -> bool { h.is_sync_running.load(Ordering::Acquire) }
pub(crate) fn set_running(h: &Housekeeper, v: bool) { h.is_sync_running.store(v, Ordering::Release) }

struct MockInner { calls: Cell<u32>, repeats: Cell<usize>, now: Instant, flag_seen_during_sync: Cell<bool>, hk: *const Housekeeper }
impl InnerSync for MockInner {
    fn sync(&self, max: usize) {
        self.calls.set(self.calls.get() + 1);
        self.repeats.set(max);
        // while maintenance runs the flag must be held (mutual exclusion of maintenance)
        self.flag_seen_during_sync.set(unsafe { (*self.hk).is_sync_running.load(Ordering::Acquire) });
    }
    fn now(&self) -> Instant { self.now }
}

/// try_sync: takes the flag iff free, runs sync exactly once, ALWAYS releases the flag, re-arms the timer.
#[kani::proof]
#[kani::unwind(6)]
fn try_sync_releases_the_flag_on_every_path() {
    let running: bool = kani::any();
    let (s, n): (u64, u32) = (kani::any(), kani::any());
    kani::assume(s < (1 << 36) && n < 1_000_000_000);
    let (s0, n0): (u64, u32) = (kani::any(), kani::any());
    kani::assume(s0 < (1 << 36) && n0 < 1_000_000_000);
    let hk = mk_housekeeper(running, inst(s0, n0));
    let inner = MockInner { calls: Cell::new(0), repeats: Cell::new(0), now: inst(s, n), flag_seen_during_sync: Cell::new(false), hk: &hk };
    let took = hk.try_sync(&inner);
    assert!(took == !running, "C09: try_sync must run maintenance iff nobody else is running it");
    if running {
        assert!(inner.calls.get() == 0 && is_running(&hk), "C09: try_sync must not touch a flag it did not take");
    } else {
        assert!(inner.calls.get() == 1 && inner.repeats.get() == MAX_SYNC_REPEATS, "C09: try_sync runs sync exactly once");
        assert!(inner.flag_seen_during_sync.get(), "C09: the flag must be held while maintenance runs");
        assert!(!is_running(&hk), "C09: try_sync must release the maintenance flag (otherwise maintenance never runs again and the 385th un-synced insert hangs)");
        let want = inst(s, n).checked_add(Duration::from_millis(PERIODICAL_SYNC_INTERVAL_MILLIS)).unwrap();
        assert!(hk.sync_after.instant() == Some(want), "C09: periodic timer re-armed to now + interval");
    }
    kani::cover!(took, "took the flag");
    kani::cover!(!took, "flag busy");
}

/// should_apply: a queue at or above its flush point ALWAYS triggers maintenance, whatever the clock
/// (both housekeeping regimes); and the queues are strictly larger than their flush points, so a
/// full queue is always at or above it.
#[kani::proof]
#[kani::unwind(6)]
fn full_queue_always_triggers_maintenance() {
    let (s, n): (u64, u32) = (kani::any(), kani::any());
    kani::assume(s < (1 << 36) && n < 1_000_000_000);
    let (s0, n0): (u64, u32) = (kani::any(), kani::any());
    kani::assume(s0 < (1 << 36) && n0 < 1_000_000_000);
    let hk = mk_housekeeper(false, inst(s0, n0));
    let len: usize = kani::any();
    let now = inst(s, n);
    if len >= WRITE_LOG_FLUSH_POINT { assert!(hk.should_apply_writes(len, now), "C09: write queue at its flush point must trigger maintenance"); }
    if len >= READ_LOG_FLUSH_POINT { assert!(hk.should_apply_reads(len, now), "C09: read queue at its flush point must trigger maintenance"); }
    assert!(WRITE_LOG_SIZE >= WRITE_LOG_FLUSH_POINT && READ_LOG_SIZE >= READ_LOG_FLUSH_POINT, "C09: a full queue is at or above its flush point");
    assert!(hk.should_apply(len, WRITE_LOG_FLUSH_POINT, now) == (len >= WRITE_LOG_FLUSH_POINT || !(inst(s0, n0) < now)), "C09: should_apply definition");
    kani::cover!(len == WRITE_LOG_SIZE && inst(s0, n0) < now, "full queue beyond the periodic interval");
}
