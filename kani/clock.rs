// Child module of common::time::clock: build a mock clock at a chosen instant (cfg(kani) only).
use super::{Clock, Instant, Mock};
use std::sync::{Arc, RwLock};

pub(crate) fn mock_at(t: Instant) -> (Clock, Arc<Mock>) {
    let mock = Arc::new(Mock { now: RwLock::new(t) });
    (Clock { mock: Some(Arc::clone(&mock)) }, mock)
}

#[allow(dead_code)]
pub(crate) fn set(mock: &Mock, t: Instant) {
    *mock.now.write().expect("lock poisoned") = t;
}
