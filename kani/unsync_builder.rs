// C17 (unsync): configuration is honoured exactly as given.
use super::CacheBuilder;
use crate::unsync::Cache;
use crate::verif_models::common::{IdH, Val};
use std::hash::BuildHasherDefault;
use std::time::Duration;

type BH = BuildHasherDefault<IdH>;
const MAX_S: u64 = 1_000 * 365 * 24 * 3600;

fn any_ok_dur() -> Option<Duration> {
    if kani::any() {
        let s: u64 = kani::any();
        let n: u32 = kani::any();
        kani::assume(n < 1_000_000_000 && (s < MAX_S || (s == MAX_S && n == 0)));
        Some(Duration::new(s, n))
    } else {
        None
    }
}

/// every combination of knobs (each absent/present, all capacities, all durations <= 1000 y, all
/// initial capacities): policy() reports exactly what was given; the fresh cache is empty.
#[kani::proof]
#[kani::unwind(6)]
fn policy_reports_exactly_the_knobs() {
    let cap: Option<u64> = if kani::any() { Some(kani::any()) } else { None };
    let init: Option<usize> = if kani::any() { Some(kani::any()) } else { None };
    let (ttl, tti) = (any_ok_dur(), any_ok_dur());
    let mut b: CacheBuilder<u8, Val, Cache<u8, Val>> = CacheBuilder::default();
    if let Some(c) = cap { b = b.max_capacity(c); }
    if let Some(i) = init { b = b.initial_capacity(i); }
    if let Some(d) = ttl { b = b.time_to_live(d); }
    if let Some(d) = tti { b = b.time_to_idle(d); }
    let cache = b.build_with_hasher(BH::default());
    let p = cache.policy();
    assert!(p.max_capacity() == cap, "C17: policy().max_capacity() != configured");
    assert!(p.time_to_live() == ttl, "C17: policy().time_to_live() != configured");
    assert!(p.time_to_idle() == tti, "C17: policy().time_to_idle() != configured");
    assert!(cache.entry_count() == 0 && cache.weighted_size() == 0, "C17,C10: fresh cache not empty");
    crate::unsync::cache::verif_unsync::assert_fresh(&cache, cap, ttl, tti, false);
    kani::cover!(cap.is_none() && ttl.is_some(), "unbounded with ttl");
    kani::cover!(true, "end reached");
    std::mem::forget(cache);
}

/// CacheBuilder::new(n) == default().max_capacity(n); initial_capacity flows nowhere but the map constructor.
#[kani::proof]
#[kani::unwind(6)]
fn builder_new_equals_max_capacity_and_initial_capacity_is_inert() {
    let n: u64 = kani::any();
    let init: usize = kani::any();
    let a = CacheBuilder::<u8, Val, Cache<u8, Val>>::new(n).build_with_hasher(BH::default());
    let b = CacheBuilder::<u8, Val, Cache<u8, Val>>::default().max_capacity(n).initial_capacity(init).build_with_hasher(BH::default());
    crate::unsync::cache::verif_unsync::assert_fresh(&a, Some(n), None, None, false);
    crate::unsync::cache::verif_unsync::assert_fresh(&b, Some(n), None, None, false);
    kani::cover!(true, "end reached");
    std::mem::forget(a);
    std::mem::forget(b);
}

/// weigher knob: present -> used; absent -> every entry weighs 1
#[kani::proof]
#[kani::unwind(6)]
fn weigher_knob() {
    let with: bool = kani::any();
    let mut b: CacheBuilder<u8, Val, Cache<u8, Val>> = CacheBuilder::default();
    if with { b = b.weigher(|k: &u8, v: &Val| (*k as u32) * 256 + v.data as u32); }
    let mut cache = b.build_with_hasher(BH::default());
    let k: u8 = kani::any();
    let v = Val { cls: kani::any(), data: kani::any() };
    let w = crate::unsync::cache::verif_unsync::weigh_of(&mut cache, k, v);
    assert!(w == if with { (k as u32) * 256 + v.data as u32 } else { 1 }, "C17: without a weigher every entry weighs 1; with one, exactly what it returns");
    kani::cover!(true, "end reached");
    std::mem::forget(cache);
}
