// Kani harnesses for unsync::cache (child module: sees private fields and fns).
use super::*;
use crate::common::deque::verif_deque as dq;
use std::hash::{BuildHasherDefault, Hasher};

// ---------------------------------------------------------------- hashers
#[derive(Default, Clone)]
pub(crate) struct IdH(u64);
impl Hasher for IdH {
    fn finish(&self) -> u64 { self.0 }
    fn write(&mut self, b: &[u8]) { if !b.is_empty() { self.0 = b[0] as u64; } }
    fn write_u8(&mut self, i: u8) { self.0 = i as u64; }
}
type BH = BuildHasherDefault<IdH>;
type C = Cache<u8, u8, BH>;

pub(crate) const MAXN: usize = 4;

#[derive(Clone, Copy)]
pub(crate) struct Cfg {
    pub n: usize,          // residents: keys 0..n, key i at LRU position i
    pub cap: bool,         // max_capacity = Some(symbolic)
    pub weigher: bool,     // weigher = |k,_| W[k], W symbolic
    pub ttl: bool,
    pub tti: bool,
    pub wo_rev: bool,      // write-order deque reversed w.r.t. access order
    pub slots_rev: bool,   // map slot placement reversed
}

pub(crate) struct St {
    pub c: C,
    pub w: [u32; MAXN + 1],     // weigher table (all 1 if no weigher)
    pub v: [u8; MAXN],          // resident values
}

fn any_sketch4() -> FrequencySketch {
    crate::common::frequency_sketch::verif_sketch::any_sketch_pub::<4>()
}

/// Build an arbitrary Inv-state with cfg.n residents (no API calls; real Deques::push_back_*).
pub(crate) fn build(cfg: Cfg) -> St {
    let mut w = [1u32; MAXN + 1];
    if cfg.weigher {
        w = kani::any();
    }
    let wt = w;
    let weigher: Option<Weigher<u8, u8>> = if cfg.weigher {
        Some(Box::new(move |k: &u8, _v: &u8| wt[*k as usize]))
    } else {
        None
    };
    let max_capacity: Option<u64> = if cfg.cap { Some(kani::any()) } else { None };
    let mut c: C = Cache {
        max_capacity,
        entry_count: 0,
        weighted_size: 0,
        cache: crate::verif_models::kani_map::HashMap::with_capacity_and_hasher(0, BH::default()),
        build_hasher: BH::default(),
        weigher,
        deques: Default::default(),
        frequency_sketch: any_sketch4(),
        frequency_sketch_enabled: true,
        time_to_live: None,
        time_to_idle: None,
        expiration_clock: None,
    };
    let v: [u8; MAXN] = kani::any();
    // map placement
    let mut i = 0;
    while i < cfg.n {
        let k = if cfg.slots_rev { cfg.n - 1 - i } else { i };
        c.cache.insert(Rc::new(k as u8), ValueEntry::new(v[k], w[k]));
        i += 1;
    }
    // access-order deque: key i at LRU position i
    let mut i = 0;
    while i < cfg.n {
        let key = i as u8;
        let rc = c.cache_key_rc(&key);
        let entry = c.cache.get_mut(&key).unwrap();
        c.deques.push_back_ao(CacheRegion::MainProbation, KeyHashDate::new(rc, key as u64, None), entry);
        c.entry_count += 1;
        c.weighted_size += w[i] as u64;
        i += 1;
    }
    St { c, w, v }
}

impl C {
    /// the Rc<K> stored in the map for `key` (harness helper)
    fn cache_key_rc(&self, key: &u8) -> Rc<u8> {
        for (k, _) in self.cache.iter() {
            if **k == *key { return Rc::clone(k); }
        }
        unreachable!()
    }
}

/// Inv clauses 1-2 on the current state; returns the AO order as keys.
pub(crate) fn check_inv(c: &C, tag_ok: &mut bool) -> ([u8; MAXN], usize) {
    let (nodes, cnt, ok) = dq::walk::<KeyHashDate<u8>, MAXN>(&c.deques.probation);
    let mut good = ok;
    let mut order = [255u8; MAXN];
    let mut sum = 0u64;
    let mut i = 0;
    while i < MAXN {
        if let Some(n) = nodes[i] {
            let e = unsafe { &n.as_ref().element };
            let k = *e.key;
            order[i] = k;
            good &= e.hash == k as u64;
            match c.cache.get(&k) {
                Some(ent) => {
                    match ent.access_order_q_node() {
                        Some(t) => {
                            let (p, tag) = t.decompose();
                            good &= p == n && tag == CacheRegion::MainProbation as usize;
                        }
                        None => good = false,
                    }
                    sum += ent.policy_weight() as u64;
                }
                None => good = false, // ghost node
            }
        }
        i += 1;
    }
    good &= c.cache.len() == cnt;            // every map entry has a node (nodes map to distinct entries)
    good &= dq::len(&c.deques.window) == 0 && dq::len(&c.deques.protected) == 0;
    *tag_ok = good;
    let _ = sum;
    (order, cnt)
}

pub(crate) fn phys(c: &C) -> (u64, u64) {
    let mut cnt = 0u64;
    let mut sum = 0u64;
    for (_, e) in c.cache.iter() {
        cnt += 1;
        sum += e.policy_weight() as u64;
    }
    (cnt, sum)
}

// ---------------------------------------------------------------- insert of a NEW key, no expiry
fn insert_new(cfg: Cfg) {
    let mut st = build(cfg);
    let c = &mut st.c;
    let n = cfg.n;
    let newk = n as u8;
    let newv: u8 = kani::any();
    let wc = st.w[n];
    let cap = c.max_capacity;
    let ws0 = c.weighted_size;
    // popularity as the implementation itself estimates it, read just before the call
    let fc = c.frequency_sketch.frequency(newk as u64) as u32;
    let mut f = [0u32; MAXN];
    let mut i = 0;
    while i < n { f[i] = c.frequency_sketch.frequency(i as u64) as u32; i += 1; }

    c.insert(newk, newv);

    let mut inv_ok = false;
    let (order, cnt) = check_inv(c, &mut inv_ok);
    assert!(inv_ok, "C08:INV deques/map structural invariant after insert");
    let (pc, ps) = phys(c);
    assert!(c.entry_count == pc, "C10: entry_count == entries physically held (insert)");
    assert!(c.weighted_size == ps, "C10: weighted_size == sum of resident weights (insert)");
    let _ = (order, cnt, fc, f, cap, ws0, wc, newv);
    kani::cover!(c.cache.get(&newk).is_some(), "admitted");
    kani::cover!(c.cache.get(&newk).is_none(), "rejected");
    std::mem::forget(st); // drop glue is the subject of the C11 family, not of this one
}

#[kani::proof]
#[kani::unwind(6)]
fn insert_new_n2_cap() {
    insert_new(Cfg { n: 2, cap: true, weigher: false, ttl: false, tti: false, wo_rev: false, slots_rev: false });
}

#[kani::proof]
#[kani::unwind(4)]
fn probe_a_insert_only() {
    let cfg = Cfg { n: 2, cap: true, weigher: false, ttl: false, tti: false, wo_rev: false, slots_rev: false };
    let mut st = build(cfg);
    kani::assume(st.c.max_capacity.unwrap() >= st.c.weighted_size);
    st.c.insert(2, 7);
    assert!(st.c.entry_count <= 3);
    std::mem::forget(st);
}
#[kani::proof]
#[kani::unwind(6)]
fn probe_b_build_only() {
    let cfg = Cfg { n: 2, cap: true, weigher: false, ttl: false, tti: false, wo_rev: false, slots_rev: false };
    let st = build(cfg);
    let mut ok = false;
    let _ = check_inv(&st.c, &mut ok);
    assert!(ok);
    std::mem::forget(st);
}
#[kani::proof]
#[kani::unwind(4)]
fn probe_c_insert_fits() {
    let cfg = Cfg { n: 2, cap: true, weigher: false, ttl: false, tti: false, wo_rev: false, slots_rev: false };
    let mut st = build(cfg);
    kani::assume(st.c.max_capacity.unwrap() >= 3);
    st.c.insert(2, 7);
    let mut ok = false;
    let _ = check_inv(&st.c, &mut ok);
    assert!(ok);
    std::mem::forget(st);
}

#[kani::proof]
#[kani::unwind(5)]
fn probe_d_concrete_cap_full() {
    let cfg = Cfg { n: 2, cap: true, weigher: false, ttl: false, tti: false, wo_rev: false, slots_rev: false };
    let mut st = build(cfg);
    st.c.max_capacity = Some(2);
    st.c.insert(2, 7);
    let mut ok = false;
    let _ = check_inv(&st.c, &mut ok);
    assert!(ok);
    kani::cover!(st.c.cache.get(&2).is_some(), "admitted");
    kani::cover!(st.c.cache.get(&2).is_none(), "rejected");
    std::mem::forget(st);
}

#[kani::proof]
#[kani::unwind(5)]
fn probe_e_concrete_cap_full_n3_weigher() {
    let cfg = Cfg { n: 3, cap: true, weigher: true, ttl: false, tti: false, wo_rev: false, slots_rev: false };
    let mut st = build(cfg);
    kani::assume(st.w[0] == 3 && st.w[1] == 5 && st.w[2] == 2 && st.w[3] == 4);
    st.c.max_capacity = Some(10);
    st.c.insert(3, 7);
    let mut ok = false;
    let _ = check_inv(&st.c, &mut ok);
    assert!(ok);
    kani::cover!(st.c.cache.get(&3).is_some(), "admitted");
    kani::cover!(st.c.cache.get(&3).is_none(), "rejected");
    std::mem::forget(st);
}
