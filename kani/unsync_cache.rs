// Kani harnesses for unsync::cache (child module of unsync::cache: sees private fields and fns).
//
// Shape of every harness: build an ARBITRARY state satisfying the representation invariant Inv
// directly (no API calls; real Deques::push_back_*), run ONE real operation, compare the complete
// post-state with a short reference model ("lossy map with LRU/TinyLFU/expiry") evaluated on a
// ghost copy of the pre-state, and re-check Inv. Concrete per harness (enumerated outside the
// solver): number of residents n, key identities 0..n (key i at LRU position i), write-order
// permutation, map slot placement, weight table, capacity, which expiry knobs exist, hasher.
// Symbolic (decided by the solver for all values): values, every timestamp, the clock, ttl, tti,
// the popularity sketch contents (hence every estimate vector), predicate masks, update weights.
//
// Assertion tags "Cxx[,Cyy]:" attribute a failing check to properties; untagged checks
// (pointer validity, overflow, unwrap/expect/unreachable, unwinding) belong to C08.
use super::*;
use crate::common::deque::verif_deque as dq;
use crate::common::frequency_sketch::verif_sketch as sk;
use crate::verif_models::common::{instant_at, le};
use std::hash::BuildHasherDefault;

pub(crate) use crate::verif_models::common::{ConstH, IdH, Val, HK, MAXN, W1, WT_A, WT_B, WT_Z, YEARS_1000};

type C<S> = Cache<u8, Val, BuildHasherDefault<S>>;
type T = (u64, u32); // ghost time: seconds, nanoseconds since the harness origin


#[derive(Clone, Copy)]
pub(crate) struct Cfg {
    pub n: usize,                 // residents: keys 0..n, key i at LRU position i
    pub cap: Option<u64>,         // concrete capacity
    pub weigher: bool,
    pub wt: [[u32; MAXN]; 2],     // weight table [cls][key] (used iff weigher)
    pub ttl: bool,
    pub tti: bool,
    pub wo: [usize; MAXN],        // write-order deque = keys wo[0], wo[1], .. (used iff ttl)
    pub slots_rev: bool,          // map slot placement reversed
    pub tc: usize,                // 0 = all times symbolic; k>0 = concrete time class TC[k] (see below)
}

/// Concrete time classes (quick tier). With symbolic times the hit/expired branch of an operation
/// merges two heap states and the comparison against the model costs 150-300 s per query; with a
/// concrete class the branch is decided during symbolic execution. The universally quantified time
/// claims are carried by (a) the predicate lemmas k1_* (fully symbolic, ns resolution) and (b) the
/// thorough tier, which runs the same harnesses with tc = 0. Values, sketch contents, predicate
/// masks stay symbolic in every class.
#[derive(Clone, Copy)]
pub(crate) struct Tc { pub now: T, pub ttl: T, pub tti: T, pub la: [T; MAXN], pub lm: [T; MAXN] }
pub(crate) const TCS: [Tc; 8] = [
    // 0: placeholder (symbolic)
    Tc { now: (0, 0), ttl: (0, 0), tti: (0, 0), la: [(0, 0); MAXN], lm: [(0, 0); MAXN] },
    // 1: everything live, well inside both deadlines
    Tc { now: (100, 0), ttl: (50, 5), tti: (30, 0), la: [(80, 0), (85, 0), (90, 0), (0, 0)], lm: [(60, 0), (70, 0), (80, 0), (0, 0)] },
    // 2: key 0 exactly ON its ttl deadline (lm0 + ttl == now, carry in the ns field), others live
    Tc { now: (100, 0), ttl: (50, 5), tti: (30, 0), la: [(80, 0), (85, 0), (90, 0), (0, 0)], lm: [(49, 999_999_995), (70, 0), (80, 0), (0, 0)] },
    // 3: key 0 one nanosecond BEFORE its ttl deadline
    Tc { now: (100, 0), ttl: (50, 5), tti: (30, 0), la: [(80, 0), (85, 0), (90, 0), (0, 0)], lm: [(49, 999_999_996), (70, 0), (80, 0), (0, 0)] },
    // 4: key 0 exactly ON its tti deadline (la0 + tti == now)
    Tc { now: (100, 0), ttl: (50, 5), tti: (30, 0), la: [(70, 0), (85, 0), (90, 0), (0, 0)], lm: [(60, 0), (70, 0), (80, 0), (0, 0)] },
    // 5: key 0 one nanosecond before its tti deadline
    Tc { now: (100, 0), ttl: (50, 5), tti: (30, 0), la: [(70, 1), (85, 0), (90, 0), (0, 0)], lm: [(60, 0), (70, 0), (80, 0), (0, 0)] },
    // 6: zero durations: everything is expired at its own insert instant
    Tc { now: (100, 0), ttl: (0, 0), tti: (0, 0), la: [(100, 0), (100, 0), (100, 0), (0, 0)], lm: [(100, 0), (100, 0), (100, 0), (0, 0)] },
    // 7: keys 0 and 1 expired (ttl: lm; tti: la), key 2 live; maximal durations region
    Tc { now: (40_000_000_000, 7), ttl: (YEARS_1000, 0), tti: (YEARS_1000, 0), la: [(10, 0), (8_464_000_000, 7), (30_000_000_000, 0), (0, 0)], lm: [(5, 0), (8_464_000_000, 7), (20_000_000_000, 0), (0, 0)] },
];


/// ghost copy of the abstract state (pre-state, then turned into the expected post-state)
#[derive(Clone, Copy)]
pub(crate) struct G {
    pub present: [bool; MAXN],
    pub v: [Val; MAXN],
    pub w: [u32; MAXN],
    pub la: [T; MAXN],
    pub lm: [T; MAXN],
    pub ao: [u8; MAXN],
    pub ao_n: usize,
    pub wo: [u8; MAXN],
    pub wo_n: usize,
    pub now: T,
    pub ttl: Option<T>,
    pub tti: Option<T>,
    pub cap: Option<u64>,
    pub has_ttl: bool,
    pub has_exp: bool,
    pub weigher: bool,
    pub wt: [[u32; MAXN]; 2],
    pub sk_words: [u64; 4],
    pub sk_size: u32,
    pub sk_inc: bool,     // expected: exactly one increment(sk_hash) happened
    pub sk_hash: u64,
}

pub(crate) struct St<S: HK> {
    pub c: C<S>,
    pub g: G,
}

pub(crate) static mut NOW: T = (0, 0);
pub(crate) fn now_stub() -> std::time::Instant {
    let t = unsafe { NOW };
    instant_at(t.0, t.1)
}

fn t_add(a: T, d: T) -> T {
    let mut s = a.0 + d.0;
    let mut n = a.1 + d.1;
    if n >= 1_000_000_000 { n -= 1_000_000_000; s += 1; }
    (s, n)
}
fn inst(t: T) -> Instant { Instant::new(instant_at(t.0, t.1)) }
fn dur(t: T) -> Duration { Duration::new(t.0, t.1) }

fn any_t() -> T {
    let s: u64 = kani::any();
    let n: u32 = kani::any();
    kani::assume(s < (1u64 << 36) && n < 1_000_000_000);
    (s, n)
}
fn any_dur() -> T {
    let s: u64 = kani::any();
    let n: u32 = kani::any();
    // exactly what ensure_expirations_or_panic lets through: d <= 1000 years
    kani::assume(n < 1_000_000_000 && (s < YEARS_1000 || (s == YEARS_1000 && n == 0)));
    (s, n)
}

impl G {
    pub(crate) fn expired(&self, i: usize) -> bool {
        let mut e = false;
        if let Some(d) = self.ttl { if self.has_ttl { e |= le(t_add(self.lm[i], d), self.now); } }
        if let Some(d) = self.tti { e |= le(t_add(self.la[i], d), self.now); }
        e
    }
    pub(crate) fn weigh(&self, k: usize, v: Val) -> u32 {
        if self.weigher { self.wt[(v.cls & 1) as usize][k] } else { 1 }
    }
    pub(crate) fn total_weight(&self) -> u64 {
        let mut s = 0u64;
        let mut i = 0;
        while i < MAXN { if self.present[i] { s += self.w[i] as u64; } i += 1; }
        s
    }
    pub(crate) fn count(&self) -> u64 {
        let mut s = 0u64;
        let mut i = 0;
        while i < MAXN { if self.present[i] { s += 1; } i += 1; }
        s
    }
    fn remove_from(order: &mut [u8; MAXN], n: &mut usize, k: u8) {
        let mut out = [255u8; MAXN];
        let mut m = 0;
        let mut i = 0;
        while i < MAXN { if i < *n && order[i] != k { out[m] = order[i]; m += 1; } i += 1; }
        *order = out;
        *n = m;
    }
    pub(crate) fn remove(&mut self, k: usize) {
        self.present[k] = false;
        Self::remove_from(&mut self.ao, &mut self.ao_n, k as u8);
        Self::remove_from(&mut self.wo, &mut self.wo_n, k as u8);
    }
    pub(crate) fn touch_ao(&mut self, k: usize) {
        Self::remove_from(&mut self.ao, &mut self.ao_n, k as u8);
        self.ao[self.ao_n] = k as u8;
        self.ao_n += 1;
    }
    pub(crate) fn touch_wo(&mut self, k: usize) {
        if self.has_ttl {
            Self::remove_from(&mut self.wo, &mut self.wo_n, k as u8);
            self.wo[self.wo_n] = k as u8;
            self.wo_n += 1;
        }
    }
}

/// Build an arbitrary Inv-state with cfg.n residents.
pub(crate) fn build<S: HK>(cfg: &Cfg) -> St<S> {
    let n = cfg.n;
    let has_exp = cfg.ttl || cfg.tti;
    let tc = TCS[cfg.tc];
    let sym = cfg.tc == 0;
    let now = if sym { any_t() } else { tc.now };
    let ttl = if cfg.ttl { Some(if sym { any_dur() } else { tc.ttl }) } else { None };
    let tti = if cfg.tti { Some(if sym { any_dur() } else { tc.tti }) } else { None };
    let wt = cfg.wt;
    let weigher: Option<Weigher<u8, Val>> = if cfg.weigher {
        Some(Box::new(move |k: &u8, v: &Val| wt[(v.cls & 1) as usize][*k as usize]))
    } else {
        None
    };
    let sketch = sk::any_sketch_pub::<4>();
    sk::assume_sizing_inv_pub::<4>(&sketch);
    let (sk_words, sk_size) = sk::snapshot4(&sketch);
    // clock: `Instant::now` is stubbed (now_stub) to the symbolic reading NOW for the Kani run;
    // the native replay (where stubs do not apply) uses the crate's own mock clock instead.
    unsafe { NOW = now; }
    let clock = if has_exp && cfg!(verif_real_map) { Some(crate::common::time::clock::verif_clock::mock_at(instant_at(now.0, now.1)).0) } else { None };
    let mut c: C<S> = Cache {
        max_capacity: cfg.cap,
        entry_count: 0,
        weighted_size: 0,
        cache: HashMap::with_capacity_and_hasher(0, Default::default()),
        build_hasher: Default::default(),
        weigher,
        deques: Default::default(),
        frequency_sketch: sketch,
        frequency_sketch_enabled: true,
        time_to_live: ttl.map(dur),
        time_to_idle: tti.map(dur),
        expiration_clock: clock,
    };
    let mut g = G {
        present: [false; MAXN], v: [Val { cls: 0, data: 0 }; MAXN], w: [0; MAXN],
        la: [(0, 0); MAXN], lm: [(0, 0); MAXN], ao: [255; MAXN], ao_n: 0, wo: [255; MAXN], wo_n: 0,
        now, ttl, tti, cap: cfg.cap, has_ttl: cfg.ttl, has_exp, weigher: cfg.weigher, wt,
        sk_words, sk_size, sk_inc: false, sk_hash: 0,
    };
    // values: weight class 0 for residents (concrete), payload symbolic
    let mut i = 0;
    while i < n {
        let d: u8 = kani::any();
        g.v[i] = Val { cls: 0, data: d };
        g.w[i] = g.weigh(i, g.v[i]);
        g.present[i] = true;
        if has_exp {
            g.la[i] = if sym { any_t() } else { tc.la[i] };
            g.lm[i] = if sym { any_t() } else { tc.lm[i] };
            kani::assume(le(g.lm[i], g.la[i]) && le(g.la[i], now));
        }
        i += 1;
    }
    // map placement (iteration order of the real map is arbitrary)
    let mut i = 0;
    while i < n {
        let k = if cfg.slots_rev { n - 1 - i } else { i };
        c.cache.insert(Rc::new(k as u8), ValueEntry::new(g.v[k], g.w[k]));
        i += 1;
    }
    // access-order deque: key i at LRU position i, sorted by last_accessed
    let mut i = 0;
    while i < n {
        let key = i as u8;
        let rc = key_rc(&c, key);
        let ts = if has_exp { Some(inst(g.la[i])) } else { None };
        if has_exp && i > 0 { kani::assume(le(g.la[i - 1], g.la[i])); }
        let entry = c.cache.get_mut(&key).unwrap();
        c.deques.push_back_ao(CacheRegion::MainProbation, KeyHashDate::new(rc, S::h(key), ts), entry);
        g.ao[i] = key;
        c.entry_count += 1;
        c.weighted_size += g.w[i] as u64;
        i += 1;
    }
    g.ao_n = n;
    // write-order deque (exists iff ttl), sorted by last_modified
    if cfg.ttl {
        let mut i = 0;
        while i < n {
            let k = cfg.wo[i];
            let key = k as u8;
            let rc = key_rc(&c, key);
            if i > 0 { kani::assume(le(g.lm[cfg.wo[i - 1]], g.lm[k])); }
            let entry = c.cache.get_mut(&key).unwrap();
            c.deques.push_back_wo(KeyDate::new(rc, Some(inst(g.lm[k]))), entry);
            g.wo[i] = key;
            i += 1;
        }
        g.wo_n = n;
    }
    St { c, g }
}

/// the Rc<K> stored in the map for `key`
fn key_rc<S: HK>(c: &C<S>, key: u8) -> Rc<u8> {
    for (k, _) in c.cache.iter() {
        if **k == key { return Rc::clone(k); }
    }
    unreachable!()
}

// ---------------------------------------------------------------- post-state vs reference model
/// Tags: who is blamed when an entry expected present is gone (`lost`), an entry expected absent is
/// there or has the wrong value (`stale`).
pub(crate) struct Tags { pub lost: &'static str, pub stale: &'static str }

/// Kani's assert! is assert-then-assume: behind a failing assertion nothing else is reported on that path,
/// so a change that breaks several properties at once would be attributed to the first assertion's tags
/// only. Each check is therefore taken or skipped by a fresh nondeterministic choice: every assertion is
/// still decided for all inputs (on the paths that take it), and a later one stays reachable on the paths
/// that skipped an earlier, failing one.
macro_rules! chk {
    ($cond:expr, $msg:expr) => { if kani::any::<bool>() { assert!($cond, $msg) } };
}

/// Compare the real post-state with the expected ghost `e` and re-establish Inv.
/// (Written so that every map lookup uses a CONCRETE key: a lookup with a key read back from a
/// merged heap multiplies the formula by the number of slots.)
pub(crate) fn compare<S: HK>(c: &C<S>, e: &G, nkeys: usize) {
    let mut pao: [Option<NonNull<DeqNode<KeyHashDate<u8>>>>; MAXN] = [None; MAXN];
    let mut pwo: [Option<NonNull<DeqNode<KeyDate<u8>>>>; MAXN] = [None; MAXN];
    let mut cnt = 0u64;
    let mut sum = 0u64;
    // --- map contents: presence, value, weight, timestamps, node back-pointers
    let mut k = 0;
    while k < MAXN {
        if k < nkeys {
            let key = k as u8;
            match c.cache.get(&key) {
                None => {
                    chk!(!e.present[k], "C03,C01,C13,C12,C07: an entry the model keeps is gone (spurious loss / wrong victim / imprecise invalidation)");
                }
                Some(ent) => {
                    cnt += 1;
                    sum += ent.policy_weight() as u64;
                    chk!(e.present[k], "C01,C07,C04,C13: an entry the model removes/rejects is still in the map");
                    chk!(ent.value == e.v[k], "C01: map holds a value other than the latest insert");
                    chk!(ent.policy_weight() == e.w[k], "C10,C04: entry weight != weigher(key, current value)");
                    if e.has_exp {
                        chk!(ent.last_accessed() == Some(inst(e.la[k])), "C06,C15: last_accessed differs from the model (only insert/update/get-hit write it)");
                    } else {
                        chk!(ent.last_accessed().is_none(), "C06: last_accessed set without expiry");
                    }
                    if e.has_ttl {
                        chk!(ent.write_order_q_node().is_some(), "C08,C05,C11: resident without write-order node although ttl is set (it never expires by ttl, and the next update of the key unwraps a None in move_to_back_wo)");
                        chk!(ent.last_modified() == Some(inst(e.lm[k])), "C05: last_modified differs from the model (only insert/update write it)");
                    } else {
                        chk!(ent.write_order_q_node().is_none(), "C08,C05: write-order node without ttl");
                        chk!(ent.last_modified().is_none(), "C05: write-order node without ttl");
                    }
                    match ent.access_order_q_node() {
                        Some(t) => {
                            let (p, tag) = t.decompose();
                            chk!(tag == CacheRegion::MainProbation as usize, "C08: access-order pointer carries the wrong region tag");
                            let el = unsafe { &p.as_ref().element };
                            chk!(*el.key == key, "C08,C12: entry's access-order node carries another key");
                            chk!(el.hash == S::h(key), "C13,C14: node carries a hash other than hash(key)");
                            pao[k] = Some(p);
                        }
                        None => chk!(false, "C08: resident without access-order node"),
                    }
                    match ent.write_order_q_node() {
                        Some(p) => {
                            chk!(e.has_ttl, "C05,C08: write-order node without ttl");
                            chk!(*unsafe { &p.as_ref().element }.key == key, "C08,C05: entry's write-order node carries another key");
                            pwo[k] = Some(p);
                        }
                        None => chk!(!e.has_ttl, "C05: resident without write-order node although ttl is set"),
                    }
                }
            }
        }
        k += 1;
    }
    // --- counters (C10) against what is physically held
    chk!(c.cache.len() as u64 == cnt, "C01: map holds a key outside the harness universe");
    chk!(c.entry_count == cnt, "C10: entry_count != number of entries physically held");
    chk!(c.weighted_size == sum, "C10,C03: weighted_size != sum of the weights physically held (remaining room would be computed from phantom weight)");
    chk!(cnt == e.count() && sum == e.total_weight(), "C10,C03: physical contents differ from the model");
    // --- access-order deque: well-formed, exactly the residents' nodes, in the model's recency order
    let (nodes, an, ok) = dq::walk::<KeyHashDate<u8>, MAXN>(&c.deques.probation);
    chk!(ok, "C08: access-order deque is not a well-formed list");
    chk!(an == e.ao_n, "C08,C11,C07: access-order deque length != residents (ghost or missing node)");
    let mut i = 0;
    while i < MAXN {
        if i < e.ao_n && i < an {
            let k = e.ao[i] as usize;
            chk!(k < MAXN && nodes[i] == pao[k], "C12,C15: recency order differs from the model (only insert/update/get-hit change it)");
        }
        i += 1;
    }
    chk!(dq::len(&c.deques.window) == 0 && dq::len(&c.deques.protected) == 0, "C08: unused deques not empty");
    // --- write-order deque
    let (wnodes, wn, wok) = dq::walk::<KeyDate<u8>, MAXN>(&c.deques.write_order);
    chk!(wok, "C08: write-order deque is not a well-formed list");
    chk!(wn == e.wo_n, "C08,C11,C05,C07,C03: write-order deque length != residents (iff ttl): a stale node later expires a re-inserted key by name");
    let mut i = 0;
    while i < MAXN {
        if i < e.wo_n && i < wn {
            let k = e.wo[i] as usize;
            chk!(k < MAXN && wnodes[i] == pwo[k], "C05: write order differs from the model");
        }
        i += 1;
    }
    // --- popularity sketch: bit-identical, or exactly one real increment(hash)
    let (words, size) = sk::snapshot4(&c.frequency_sketch);
    let mut s2 = sk::rebuild4(e.sk_words, e.sk_size, &c.frequency_sketch);
    if e.sk_inc { s2.increment(e.sk_hash); }
    let (w2, z2) = sk::snapshot4(&s2);
    chk!(words[0] == w2[0] && words[1] == w2[1] && words[2] == w2[2] && words[3] == w2[3] && size == z2,
         "C14,C15: popularity sketch differs from the model (only get records, exactly once)");
    std::mem::forget(s2);
    // --- configuration untouched
    chk!(c.max_capacity == e.cap, "C17: max_capacity changed");
    kani::cover!(true, "end of comparison reached");
}

// ================================================================================================
// Operations
// ================================================================================================

/// get(k): k = resident j (j < n) or the absent key n. Purge is replaced (see `no_purge`).
/// what evict_lru_entries() does first in every operation: drop the shortest LRU prefix covering the excess
fn lru_evict_ghost(e: &mut G, n: usize) {
    if let Some(cap) = e.cap {
        let g = *e;
        let need = g.total_weight().saturating_sub(cap);
        let mut freed = 0u64;
        let mut i = 0;
        while i < n { if g.present[i] && freed < need { freed += g.w[i] as u64; e.remove(i); } i += 1; }
    }
}
/// a grown update of the MRU resident happened just before (concrete growth): state is over capacity
fn grow_mru<S: HK>(st: &mut St<S>, n: usize, grow: u32) {
    if n > 0 && grow > 0 {
        let key = (n - 1) as u8;
        st.c.cache.get_mut(&key).unwrap().set_policy_weight(st.g.w[n - 1] + grow);
        st.c.weighted_size += grow as u64;
        st.g.w[n - 1] += grow;
    }
}

fn purge_ghost(e: &mut G, n: usize) {
    let g = *e;
    let mut i = 0;
    while i < n { if g.expired(i) { e.remove(i); } i += 1; }
}

fn op_get<S: HK>(cfg: &Cfg, j: usize, real_purge: bool) {
    let mut st = build::<S>(cfg);
    let mut e = st.g;
    let key = j as u8;
    let got = st.c.get(&key).copied();
    if real_purge { purge_ghost(&mut e, cfg.n); }
    e.sk_inc = true;
    e.sk_hash = S::h(key);
    let live = j < cfg.n && !st.g.expired(j);
    if live {
        chk!(got == Some(st.g.v[j]), "C01,C03: get of a live resident does not return its latest value");
        if e.has_exp { e.la[j] = e.now; }
        e.touch_ao(j);
    } else {
        chk!(got.is_none(), "C01,C05,C06: get returns a value for an absent or expired key");
    }
    compare(&st.c, &e, cfg.n + 1);
    let _ = live;
    std::mem::forget(st);
}

/// get(j) from a state left over capacity by a grown update: the excess goes first, then the lookup.
fn op_get_overcap<S: HK>(cfg: &Cfg, j: usize, grow: u32) {
    let mut st = build::<S>(cfg);
    grow_mru(&mut st, cfg.n, grow);
    let mut e = st.g;
    let key = j as u8;
    let got = st.c.get(&key).copied();
    lru_evict_ghost(&mut e, cfg.n);
    e.sk_inc = true;
    e.sk_hash = S::h(key);
    if j < cfg.n && e.present[j] {
        chk!(got == Some(st.g.v[j]), "C01,C03: get of a live resident does not return its latest value");
        if e.has_exp { e.la[j] = e.now; }
        e.touch_ao(j);
    } else {
        chk!(got.is_none(), "C01,C04: get returns an entry that had to be evicted for capacity");
    }
    compare(&st.c, &e, cfg.n + 1);
    chk!(st.c.weighted_size <= st.g.cap.unwrap() || e.ao_n == 0, "C04: the excess of a grown update must be removed by the following operation");
    std::mem::forget(st);
}

/// insert(new key) from a state left over capacity by a grown update (the insert itself must evict first).
fn op_insert_overcap<S: HK>(cfg: &Cfg, cls: u8, grow: u32) {
    let mut st = build::<S>(cfg);
    let n = cfg.n;
    grow_mru(&mut st, n, grow);
    let mut e = st.g;
    let key = n as u8;
    let nv = Val { cls, data: kani::any() };
    let wc = st.g.weigh(n, nv);
    st.c.insert(key, nv);
    lru_evict_ghost(&mut e, n);
    // concrete shapes used here leave room for the newcomer after the eviction
    let ws = e.total_weight();
    chk!(ws + wc as u64 <= e.cap.unwrap(), "VERIF-BOUND: shape must leave room after the eviction");
    e.present[n] = true; e.v[n] = nv; e.w[n] = wc; e.la[n] = e.now; e.lm[n] = e.now;
    e.ao[e.ao_n] = key; e.ao_n += 1;
    if e.has_ttl { e.wo[e.wo_n] = key; e.wo_n += 1; }
    compare(&st.c, &e, n + 1);
    chk!(st.c.weighted_size <= st.g.cap.unwrap(), "C04: resident weight stays above max_capacity after an insert that follows a grown update");
    std::mem::forget(st);
}

/// insert of a NEW key into a FULL weighted cache whose popularity sketch has NOT been enabled yet (the
/// residents were inserted while the cache was under half full and then grown by in-place updates, which
/// never enable the sketch): every estimate reads 0, "strictly more popular" is false, so the newcomer
/// must be rejected and no resident touched (C13: scan resistance does not depend on the sketch being on).
fn op_insert_sketch_off<S: HK>(cfg: &Cfg, cls: u8) {
    let mut st = build::<S>(cfg);
    let n = cfg.n;
    st.c.frequency_sketch = Default::default();
    st.c.frequency_sketch_enabled = false;
    let ws0 = st.c.weighted_size;
    let nv = Val { cls, data: kani::any() };
    let wc = st.g.weigh(n, nv);
    chk!(ws0 + wc as u64 > st.g.cap.unwrap() && wc as u64 <= st.g.cap.unwrap() && (wc as u64) <= ws0, "VERIF-BOUND: shape must send the newcomer through admission with a covering prefix");
    st.c.insert(n as u8, nv);
    chk!(st.c.cache.get(&(n as u8)).is_none(), "C13: a newcomer nobody ever looked up displaced residents (popularity 0 is not strictly greater than the victims' 0) while the sketch was still disabled");
    let mut i = 0;
    while i < MAXN { if i < n { chk!(st.c.cache.get(&(i as u8)).is_some(), "C13,C03,C12: a rejected newcomer must not touch any resident"); } i += 1; }
    chk!(st.c.entry_count == n as u64 && st.c.weighted_size == ws0, "C10,C13: rejection changes no counter");
    kani::cover!(true, "end of comparison reached");
    std::mem::forget(st);
}

/// invalidate_all followed by a refill: the popularity estimates survive (C14: only an aging step lowers an
/// estimate; invalidation records nothing and must not cause the sketch to be re-sized and zeroed later).
fn op_invalidate_all_then_insert<S: HK>(cfg: &Cfg) {
    let mut st = build::<S>(cfg);
    let f0 = st.c.frequency_sketch.frequency(S::h(0));
    let f3 = st.c.frequency_sketch.frequency(S::h(3));
    st.c.invalidate_all();
    chk!(st.c.frequency_sketch.frequency(S::h(0)) == f0 && st.c.frequency_sketch.frequency(S::h(3)) == f3, "C14: invalidate_all changed a popularity estimate");
    st.c.insert(0u8, Val { cls: 0, data: kani::any() });
    st.c.insert(1u8, Val { cls: 0, data: kani::any() });
    chk!(st.c.frequency_sketch.frequency(S::h(0)) == f0 && st.c.frequency_sketch.frequency(S::h(3)) == f3,
         "C14,C13: popularity estimates changed across invalidate_all + refill without any recorded lookup or aging step (sketch re-sized and zeroed)");
    chk!(st.c.cache.get(&0u8).is_some() && st.c.cache.get(&1u8).is_some() && st.c.entry_count == 2, "C03,C07: refill after invalidate_all");
    kani::cover!(f0 > 0, "key 0 was popular");
    kani::cover!(true, "end of comparison reached");
    std::mem::forget(st);
}

fn op_contains<S: HK>(cfg: &Cfg, j: usize, real_purge: bool) {
    let mut st = build::<S>(cfg);
    let mut e = st.g;
    let key = j as u8;
    let got = st.c.contains_key(&key);
    if real_purge { purge_ghost(&mut e, cfg.n); }
    let live = j < cfg.n && !st.g.expired(j);
    chk!(got == live, "C01,C03,C05,C06: contains_key != (resident and not expired)");
    compare(&st.c, &e, cfg.n + 1); // frame: nothing at all changes (C15)

    std::mem::forget(st);
}

/// iter(): yields exactly the live pairs, each once (model iterator visits each slot once).
fn op_iter<S: HK>(cfg: &Cfg) {
    let st = build::<S>(cfg);
    let e = st.g;
    let mut seen = [0u8; MAXN];
    let mut extra = 0u8;
    {
        let mut it = st.c.iter();
        let mut i = 0;
        while i < MAXN + 1 {
            if let Some((k, v)) = it.next() {
                let k = *k as usize;
                if k < cfg.n {
                    seen[k] += 1;
                    chk!(*v == st.g.v[k], "C01,C16: iteration yields a value other than the latest insert");
                } else { extra += 1; }
            }
            i += 1;
        }
        chk!(it.next().is_none(), "C16: iterator does not terminate");
    }
    chk!(extra == 0, "C01,C16: iteration yields a key that is not resident");
    let mut k = 0;
    while k < MAXN {
        if k < cfg.n {
            let live = !st.g.expired(k);
            chk!(seen[k] == if live { 1 } else { 0 }, "C16,C03,C05,C06: iteration must yield every live entry exactly once and no expired entry");
        }
        k += 1;
    }
    compare(&st.c, &e, cfg.n + 1); // pure observation (C15)
    std::mem::forget(st);
}

/// insert(k, v): update of resident j (< n) or a new key n. `cls` = weight class of the new value
/// (concrete), payload symbolic.
fn op_insert<S: HK>(cfg: &Cfg, j: usize, cls: u8) {
    let mut st = build::<S>(cfg);
    let mut e = st.g;
    let n = cfg.n;
    let key = j as u8;
    let nv = Val { cls, data: kani::any() };
    let wc = st.g.weigh(j, nv);
    // popularity exactly as the implementation estimates it, read just before the call
    let fc = st.c.frequency_sketch.frequency(S::h(key)) as u32;
    let mut f = [0u32; MAXN];
    let mut i = 0;
    while i < n { f[i] = st.c.frequency_sketch.frequency(S::h(i as u8)) as u32; i += 1; }

    st.c.insert(key, nv);

    // every operation first removes the excess a grown update may have left
    lru_evict_ghost(&mut e, n);
    let g = e; // the admission below is decided on the state after that eviction
    if j < n && !e.present[j] {
        // the key itself was evicted for capacity just before: the insert is one of a NEW key (not instantiated)
        chk!(false, "VERIF-BOUND: shape evicts the key it updates");
    }
    if j < n {
        // update in place
        e.v[j] = nv;
        e.w[j] = wc;
        if e.has_exp { e.la[j] = e.now; e.lm[j] = e.now; }
        e.touch_ao(j);
        e.touch_wo(j);
    } else {
        let ws = g.total_weight();
        let fits = match g.cap { None => true, Some(cap) => ws + wc as u64 <= cap };
        let mut admit = fits;
        let mut vict = [false; MAXN];
        let mut nvict = 0usize;
        if !fits {
            let cap = g.cap.unwrap();
            if wc as u64 > cap {
                admit = false; // heavier than the whole cache: never retained (C04)
            } else {
                // shortest LRU prefix P (of what is still resident) with weight >= wc; admitted iff it exists and fc > sum freq(P)
                let mut pw = 0u64;
                let mut pf = 0u32;
                let mut i = 0;
                while i < n {
                    if g.present[i] && pw < wc as u64 { pw += g.w[i] as u64; pf += f[i]; vict[i] = true; nvict += 1; }
                    i += 1;
                }
                admit = pw >= wc as u64 && fc > pf;
                if !admit { vict = [false; MAXN]; nvict = 0; }
            }
        }
        let mut i = 0;
        while i < n { if vict[i] { e.remove(i); } i += 1; }
        if admit {
            e.present[j] = true;
            e.v[j] = nv;
            e.w[j] = wc;
            e.la[j] = e.now;
            e.lm[j] = e.now;
            e.ao[e.ao_n] = key; e.ao_n += 1;
            if e.has_ttl { e.wo[e.wo_n] = key; e.wo_n += 1; }
        }
        if fits { chk!(st.c.cache.get(&key).is_some(), "C03: a new key that fits in the remaining capacity must be retained"); }
        if !fits && g.cap.unwrap() >= wc as u64 && wc > 0 {
            kani::cover!(admit && nvict > 0, "admitted over victims");
            kani::cover!(!admit, "newcomer rejected");
        }
    }
    compare(&st.c, &e, n + 1);
    // C04 directly on what is physically held
    if let Some(cap) = g.cap {
        if g.total_weight() <= cap && j >= n {
            let mut sum = 0u64;
            for (_, ent) in st.c.cache.iter() { sum += ent.policy_weight() as u64; }
            chk!(sum <= cap, "C04: resident weight exceeds max_capacity after a fresh insert");
        }
    }
    std::mem::forget(st);
}

fn op_invalidate<S: HK>(cfg: &Cfg, j: usize) {
    let mut st = build::<S>(cfg);
    let mut e = st.g;
    let key = j as u8;
    st.c.invalidate(&key);
    chk!(st.c.cache.get(&key).is_none(), "C07: invalidated key still in the map");
    if j < cfg.n { e.remove(j); }
    compare(&st.c, &e, cfg.n + 1);
    std::mem::forget(st);
}

fn op_invalidate_all<S: HK>(cfg: &Cfg) {
    let mut st = build::<S>(cfg);
    let mut e = st.g;
    st.c.invalidate_all();
    let mut i = 0;
    while i < cfg.n { e.remove(i); i += 1; }
    compare(&st.c, &e, cfg.n + 1);
    std::mem::forget(st);
}

/// invalidate_entries_if(p): p(k, v) = bit (2k + (v.data & 1)) of a symbolic mask.
fn op_invalidate_if<S: HK>(cfg: &Cfg, mask_in: Option<u8>) {
    let mut st = build::<S>(cfg);
    let mut e = st.g;
    // quick tier: concrete mask over (key, payload parity) classes; thorough: symbolic mask
    let mask: u8 = match mask_in { Some(m) => m, None => kani::any() };
    st.c.invalidate_entries_if(move |k, v| (mask >> (2 * *k + (v.data & 1))) & 1 == 1);
    let mut i = 0;
    let mut removed = 0;
    while i < cfg.n {
        if (mask >> (2 * i as u8 + (st.g.v[i].data & 1))) & 1 == 1 { e.remove(i); removed += 1; }
        i += 1;
    }
    compare(&st.c, &e, cfg.n + 1);
    let _ = removed;
    std::mem::forget(st);
}

/// evict_lru_entries() from a state whose weight exceeds the capacity (what a grown update leaves).
/// `grow` = extra weight put on the MRU entry before the call (concrete).
fn op_evict_lru<S: HK>(cfg: &Cfg, grow: u32) {
    let mut st = build::<S>(cfg);
    let n = cfg.n;
    // a grown update: MRU entry's weight increased, counters follow (what handle_update does)
    if n > 0 && grow > 0 {
        let key = (n - 1) as u8;
        st.c.cache.get_mut(&key).unwrap().set_policy_weight(st.g.w[n - 1] + grow);
        st.c.weighted_size += grow as u64;
        st.g.w[n - 1] += grow;
    }
    let g = st.g;
    let mut e = st.g;
    st.c.evict_lru_entries();
    if let Some(cap) = g.cap {
        let need = g.total_weight().saturating_sub(cap);
        let mut freed = 0u64;
        let mut i = 0;
        while i < n {
            if freed < need { freed += g.w[i] as u64; e.remove(i); }
            i += 1;
        }
        compare(&st.c, &e, n + 1);
        chk!(st.c.weighted_size <= cap || e.ao_n == 0, "C04: excess of a grown update is removed by the next operation");
    } else {
        compare(&st.c, &e, n + 1);
    }
    std::mem::forget(st);
}

/// evict_expired(now): removes exactly the expired residents (n <= batch), gives back their weight.
fn op_evict_expired<S: HK>(cfg: &Cfg) {
    let mut st = build::<S>(cfg);
    let g = st.g;
    let mut e = st.g;
    let now = inst(g.now);
    st.c.evict_expired(now);
    let mut i = 0;
    let mut removed = 0;
    while i < cfg.n {
        if g.expired(i) { e.remove(i); removed += 1; }
        i += 1;
    }
    compare(&st.c, &e, cfg.n + 1);
    let _ = removed;
    std::mem::forget(st);
}

/// Replacement for Cache::evict_expired in the lookup/update "tail" harnesses: the purge is decided
/// separately (op_evict_expired: Inv -> Inv, removes exactly the expired entries). Tails are run from
/// states that may still CONTAIN expired entries, so "whether or not maintenance has run" is literal.
pub(crate) fn no_purge<K, V, S>(_c: &mut Cache<K, V, S>, _now: Instant)
where
    K: Hash + Eq,
    S: BuildHasher + Clone,
{
}

// ================================================================================================
// Instantiations
// ================================================================================================
const WO_ID: [usize; MAXN] = [0, 1, 2, 3];
const WO_REV2: [usize; MAXN] = [1, 0, 2, 3];
const WO_REV3: [usize; MAXN] = [2, 1, 0, 3];
const WO_ROT3: [usize; MAXN] = [1, 2, 0, 3];

const fn cfg(n: usize, cap: Option<u64>, weigher: bool, wt: [[u32; MAXN]; 2], ttl: bool, tti: bool, wo: [usize; MAXN], slots_rev: bool) -> Cfg {
    Cfg { n, cap, weigher, wt, ttl, tti, wo, slots_rev, tc: 0 }
}
const fn cfgt(n: usize, cap: Option<u64>, weigher: bool, wt: [[u32; MAXN]; 2], ttl: bool, tti: bool, wo: [usize; MAXN], slots_rev: bool, tc: usize) -> Cfg {
    Cfg { n, cap, weigher, wt, ttl, tti, wo, slots_rev, tc }
}

macro_rules! uh {
    ($name:ident, $unw:expr, $body:expr) => {
        #[kani::proof]
        #[kani::unwind($unw)]
        #[kani::stub(Cache::evict_expired, no_purge)]
        #[kani::stub(std::time::Instant::now, now_stub)]
        fn $name() { $body }
    };
}
macro_rules! uh_real_purge {
    ($name:ident, $unw:expr, $body:expr) => {
        #[kani::proof]
        #[kani::unwind($unw)]
        #[kani::stub(std::time::Instant::now, now_stub)]
        fn $name() { $body }
    };
}

// ---- no expiry, unit weights, capacity exactly full (admission decides) ----
uh!(get_hit0_n2_full, 6, op_get::<IdH>(&cfg(2, Some(2), false, W1, false, false, WO_ID, false), 0, false));
uh!(get_hit1_n2_full, 6, op_get::<IdH>(&cfg(2, Some(2), false, W1, false, false, WO_ID, true), 1, false));
uh!(get_miss_n2_full, 6, op_get::<IdH>(&cfg(2, Some(2), false, W1, false, false, WO_ID, false), 2, false));
uh!(contains_n2_full, 6, op_contains::<IdH>(&cfg(2, Some(2), false, W1, false, false, WO_ID, false), 1, false));
uh!(insert_new_n2_full, 6, op_insert::<IdH>(&cfg(2, Some(2), false, W1, false, false, WO_ID, false), 2, 0));
uh!(insert_new_n2_room, 6, op_insert::<IdH>(&cfg(2, Some(3), false, W1, false, false, WO_ID, true), 2, 0));
uh!(insert_new_n2_nocap, 6, op_insert::<IdH>(&cfg(2, None, false, W1, false, false, WO_ID, false), 2, 0));
uh!(insert_new_n0_cap0, 6, op_insert::<IdH>(&cfg(0, Some(0), false, W1, false, false, WO_ID, false), 0, 0));
uh!(insert_upd0_n2_full, 6, op_insert::<IdH>(&cfg(2, Some(2), false, W1, false, false, WO_ID, false), 0, 0));
uh!(insert_upd1_n2_full, 6, op_insert::<IdH>(&cfg(2, Some(2), false, W1, false, false, WO_ID, false), 1, 0));
uh!(invalidate0_n2, 6, op_invalidate::<IdH>(&cfg(2, Some(2), false, W1, false, false, WO_ID, false), 0));
uh!(invalidate_absent_n2, 6, op_invalidate::<IdH>(&cfg(2, Some(2), false, W1, false, false, WO_ID, false), 2));
uh!(invalidate_all_then_refill_n2, 8, op_invalidate_all_then_insert::<IdH>(&cfg(2, Some(2), false, W1, false, false, WO_ID, false)));
uh!(invalidate_all_n2, 6, op_invalidate_all::<IdH>(&cfg(2, Some(2), false, W1, false, false, WO_ID, false)));
uh!(invalidate_if_n2_m1111, 6, op_invalidate_if::<IdH>(&cfg(2, Some(2), false, W1, false, false, WO_ID, false), Some(0b1111)));
uh!(invalidate_if_n2_m0001, 6, op_invalidate_if::<IdH>(&cfg(2, Some(2), false, W1, false, false, WO_ID, false), Some(0b0001)));
uh!(invalidate_if_n2_m0011, 6, op_invalidate_if::<IdH>(&cfg(2, Some(2), false, W1, false, false, WO_ID, false), Some(0b0011)));
uh!(invalidate_if_n2_m1100, 6, op_invalidate_if::<IdH>(&cfg(2, Some(2), false, W1, false, false, WO_ID, false), Some(0b1100)));
uh!(invalidate_if_n2_sym, 6, op_invalidate_if::<IdH>(&cfg(2, Some(2), false, W1, false, false, WO_ID, false), None));
uh!(iter_n2, 6, op_iter::<IdH>(&cfg(2, Some(2), false, W1, false, false, WO_ID, true)));
// over-capacity pre-states (a grown update just happened): 3 + (5+4) = 12 > 8
uh!(get_hit1_n2_w_overcap, 6, op_get_overcap::<IdH>(&cfg(2, Some(9), true, WT_A, false, false, WO_ID, false), 1, 4));
uh!(get_hit0_n2_w_overcap_evicted, 6, op_get_overcap::<IdH>(&cfg(2, Some(9), true, WT_A, false, false, WO_ID, false), 0, 4));
uh!(insert_new_n2_w_overcap, 6, op_insert_overcap::<IdH>(&cfg(2, Some(11), true, WT_A, false, false, WO_ID, false), 0, 4));   // 3 + (5+4) = 12 > 11: evict key 0; newcomer (w 2) then fits exactly
// update to a weight above max_capacity (20 > 8): the new value replaces the old one at once
uh!(insert_upd0_n2_w_oversize, 6, op_insert::<IdH>(&cfg(2, Some(8), true, WT_B, false, false, WO_ID, false), 0, 1));
// no covering prefix: residents 3+5 = 8 < newcomer 9 <= capacity 9: must be rejected, nobody touched
uh!(insert_new_n2_w_no_prefix, 6, op_insert::<IdH>(&cfg(2, Some(9), true, WT_B, false, false, WO_ID, false), 2, 1));
// colliding hasher: admission with identical estimates
uh!(insert_new_n2_full_collide, 6, op_insert::<ConstH>(&cfg(2, Some(2), false, W1, false, false, WO_ID, false), 2, 0));

// ---- weigher with distinct weights ----
// residents 3+5 (+2), capacity 10: newcomer key n weighs 4 (cls 0) / 9 (cls 1)
uh!(insert_new_n2_w_fits, 6, op_insert::<IdH>(&cfg(2, Some(10), true, WT_A, false, false, WO_ID, false), 2, 0));       // 8+2 fits
uh!(insert_new_n2_w_sketch_off, 8, op_insert_sketch_off::<IdH>(&cfgt(2, Some(8), true, WT_A, false, false, WO_ID, false, 0), 0));
uh!(insert_new_n2_w_admit, 6, op_insert::<IdH>(&cfg(2, Some(9), true, WT_A, false, false, WO_ID, false), 2, 1));       // 8+6: victims {0,1}
uh!(insert_new_n2_w_toobig, 6, op_insert::<IdH>(&cfg(2, Some(8), true, WT_B, false, false, WO_ID, false), 2, 1));      // 6 > 5... fits? no: too big
uh!(insert_new_n3_w_admit1, 7, op_insert::<IdH>(&cfg(3, Some(10), true, WT_A, false, false, WO_ID, false), 3, 0));     // 10+4: victim {0,1}? 3<4 -> {0,1}
uh!(insert_upd_n2_w_grow, 6, op_insert::<IdH>(&cfg(2, Some(8), true, WT_A, false, false, WO_ID, false), 0, 1));        // 3 -> 7: over capacity afterwards
uh!(insert_upd_n2_w_shrink, 6, op_insert::<IdH>(&cfg(2, Some(8), true, WT_A, false, false, WO_ID, false), 1, 1));      // 5 -> 1
uh!(insert_new_n2_zero_w, 6, op_insert::<IdH>(&cfg(2, Some(4), true, WT_Z, false, false, WO_ID, false), 2, 0));        // residents 0+4 full; newcomer weight 0 fits
uh!(insert_new_n2_zero_victim, 6, op_insert::<IdH>(&cfg(2, Some(4), true, WT_Z, false, false, WO_ID, false), 2, 1));   // newcomer 4: victims {0 (w0), 1 (w4)}
uh!(invalidate1_n2_w, 6, op_invalidate::<IdH>(&cfg(2, Some(9), true, WT_A, false, false, WO_ID, false), 1));
uh!(invalidate_if_n2_w_m1111, 6, op_invalidate_if::<IdH>(&cfg(2, Some(9), true, WT_A, false, false, WO_ID, false), Some(0b1111)));
uh!(invalidate_if_n2_w_m0001, 6, op_invalidate_if::<IdH>(&cfg(2, Some(9), true, WT_A, false, false, WO_ID, false), Some(0b0001)));
uh!(invalidate_if_n2_w_m0011, 6, op_invalidate_if::<IdH>(&cfg(2, Some(9), true, WT_A, false, false, WO_ID, false), Some(0b0011)));
uh!(invalidate_if_n2_w_m1100, 6, op_invalidate_if::<IdH>(&cfg(2, Some(9), true, WT_A, false, false, WO_ID, false), Some(0b1100)));
uh!(invalidate_if_n2_w_sym, 6, op_invalidate_if::<IdH>(&cfg(2, Some(9), true, WT_A, false, false, WO_ID, false), None));
uh!(invalidate_all_n2_w, 6, op_invalidate_all::<IdH>(&cfg(2, Some(9), true, WT_A, false, false, WO_ID, false)));
uh!(evict_lru_n2_grown, 6, op_evict_lru::<IdH>(&cfg(2, Some(8), true, WT_A, false, false, WO_ID, false), 4));         // 3+9=12 > 8: evict key 0 (3)... need 4 -> {0,1}
uh!(evict_lru_n3_grown_exact, 7, op_evict_lru::<IdH>(&cfg(3, Some(10), true, WT_A, false, false, WO_ID, false), 3));   // 3+5+5=13: need 3 -> exactly {0}
uh!(evict_lru_n2_within, 6, op_evict_lru::<IdH>(&cfg(2, Some(8), true, WT_A, false, false, WO_ID, false), 0));
uh!(evict_lru_n2_zero, 6, op_evict_lru::<IdH>(&cfg(2, Some(4), true, WT_Z, false, false, WO_ID, false), 2));           // 0+6 > 4: victims {0 (w0), 1}

// ---- expiry, quick tier: concrete time classes (TCS), symbolic values / sketch / masks ----
uh!(get0_ttl_live, 6, op_get::<IdH>(&cfgt(2, Some(3), false, W1, true, false, WO_ID, false, 1), 0, false));
uh!(get0_ttl_on_deadline, 6, op_get::<IdH>(&cfgt(2, Some(3), false, W1, true, false, WO_ID, false, 2), 0, false));
uh!(get0_ttl_1ns_before, 6, op_get::<IdH>(&cfgt(2, Some(3), false, W1, true, true, WO_ID, false, 3), 0, false));
uh!(get0_tti_on_deadline, 6, op_get::<IdH>(&cfgt(2, Some(3), false, W1, false, true, WO_ID, false, 4), 0, false));
uh!(get0_tti_1ns_before, 6, op_get::<IdH>(&cfgt(2, Some(3), false, W1, true, true, WO_ID, false, 5), 0, false));
uh!(get1_both_zero_dur, 6, op_get::<IdH>(&cfgt(2, None, false, W1, true, true, WO_ID, false, 6), 1, false));
uh!(get1_both_max_dur, 6, op_get::<IdH>(&cfgt(3, None, false, W1, true, true, WO_ID, false, 7), 1, false));
uh!(contains0_ttl_on_deadline, 6, op_contains::<IdH>(&cfgt(2, Some(3), false, W1, true, true, WO_ID, false, 2), 0, false));
uh!(contains0_tti_on_deadline, 6, op_contains::<IdH>(&cfgt(2, Some(3), false, W1, false, true, WO_ID, false, 4), 0, false));
uh!(contains0_tti_1ns_before, 6, op_contains::<IdH>(&cfgt(2, Some(3), false, W1, false, true, WO_ID, false, 5), 0, false));
uh!(contains1_live, 6, op_contains::<IdH>(&cfgt(2, Some(3), false, W1, true, true, WO_ID, false, 1), 1, false));
// BOTH policies configured, only ONE deadline passed (each policy must be enforced on its own: tti < ttl here)
uh!(get0_both_ttl_only_expired, 6, op_get::<IdH>(&cfgt(2, Some(3), false, W1, true, true, WO_ID, false, 2), 0, false));
uh!(get0_both_tti_only_expired, 6, op_get::<IdH>(&cfgt(2, Some(3), false, W1, true, true, WO_ID, true, 4), 0, false));
uh!(contains0_both_tti_only_expired, 6, op_contains::<IdH>(&cfgt(2, Some(3), false, W1, true, true, WO_ID, false, 4), 0, false));
uh!(iter_both_ttl_only_expired, 6, op_iter::<IdH>(&cfgt(2, Some(3), false, W1, true, true, WO_ID, false, 2)));
uh!(iter_both_tti_only_expired, 6, op_iter::<IdH>(&cfgt(2, Some(3), false, W1, true, true, WO_ID, true, 4)));
uh!(iter_ttl_on_deadline, 6, op_iter::<IdH>(&cfgt(2, Some(3), false, W1, true, false, WO_ID, true, 2)));
uh!(iter_tti_on_deadline, 6, op_iter::<IdH>(&cfgt(2, Some(3), false, W1, true, true, WO_ID, false, 4)));
uh!(iter_max_dur, 6, op_iter::<IdH>(&cfgt(3, None, false, W1, true, true, WO_ID, false, 7)));
uh!(insert_upd0_both_expired, 6, op_insert::<IdH>(&cfgt(2, Some(3), false, W1, true, true, WO_ID, false, 2), 0, 0));
uh!(insert_upd1_ttl_live, 6, op_insert::<IdH>(&cfgt(2, Some(3), false, W1, true, false, WO_ID, false, 1), 1, 0));
uh!(insert_upd0_tti_live, 6, op_insert::<IdH>(&cfgt(2, Some(3), false, W1, false, true, WO_ID, false, 1), 0, 0));
uh!(insert_new_ttl_room, 6, op_insert::<IdH>(&cfgt(2, Some(3), false, W1, true, false, WO_ID, false, 1), 2, 0));
uh!(insert_new_ttl_full, 6, op_insert::<IdH>(&cfgt(2, Some(2), false, W1, true, false, WO_ID, false, 1), 2, 0));
uh!(insert_new_tti_full, 6, op_insert::<IdH>(&cfgt(2, Some(2), false, W1, false, true, WO_ID, false, 1), 2, 0));
uh!(insert_new_both_full, 6, op_insert::<IdH>(&cfgt(2, Some(2), false, W1, true, true, WO_ID, false, 3), 2, 0));
uh!(invalidate0_both, 6, op_invalidate::<IdH>(&cfgt(2, Some(3), false, W1, true, true, WO_ID, false, 1), 0));
uh!(invalidate1_ttl, 6, op_invalidate::<IdH>(&cfgt(2, Some(3), false, W1, true, false, WO_ID, false, 2), 1));
uh!(invalidate_all_both, 6, op_invalidate_all::<IdH>(&cfgt(2, Some(3), false, W1, true, true, WO_ID, false, 1)));
uh!(invalidate_if_ttl_m1111, 6, op_invalidate_if::<IdH>(&cfgt(2, Some(3), false, W1, true, false, WO_ID, false, 1), Some(0b1111)));
uh!(invalidate_if_ttl_m0001, 6, op_invalidate_if::<IdH>(&cfgt(2, Some(3), false, W1, true, false, WO_ID, false, 1), Some(0b0001)));
uh!(invalidate_if_ttl_m0011, 6, op_invalidate_if::<IdH>(&cfgt(2, Some(3), false, W1, true, false, WO_ID, false, 1), Some(0b0011)));
uh!(invalidate_if_ttl_m1100, 6, op_invalidate_if::<IdH>(&cfgt(2, Some(3), false, W1, true, false, WO_ID, false, 1), Some(0b1100)));
// the real purge on concrete classes, distinct weights
uh_real_purge!(purge_ttl_on_deadline_w, 6, op_evict_expired::<IdH>(&cfgt(2, Some(9), true, WT_A, true, false, WO_ID, false, 2)));
uh_real_purge!(purge_tti_on_deadline_w, 6, op_evict_expired::<IdH>(&cfgt(2, Some(9), true, WT_A, false, true, WO_ID, false, 4)));
uh_real_purge!(purge_both_1ns_before_w, 6, op_evict_expired::<IdH>(&cfgt(2, Some(9), true, WT_A, true, true, WO_ID, false, 3)));
uh_real_purge!(purge_both_tti_only_w, 6, op_evict_expired::<IdH>(&cfgt(2, Some(9), true, WT_A, true, true, WO_ID, false, 4)));
uh_real_purge!(purge_both_ttl_only_w, 6, op_evict_expired::<IdH>(&cfgt(2, Some(9), true, WT_A, true, true, WO_ID, true, 2)));
uh_real_purge!(purge_both_zero_dur_w, 6, op_evict_expired::<IdH>(&cfgt(2, Some(9), true, WT_A, true, true, WO_ID, false, 6)));
uh_real_purge!(purge_both_two_of_three_w, 6, op_evict_expired::<IdH>(&cfgt(3, Some(20), true, WT_A, true, true, WO_ID, false, 7)));
// whole operations including the real purge
uh_real_purge!(get0_ttl_on_deadline_realpurge, 6, op_get::<IdH>(&cfgt(2, Some(3), false, W1, true, true, WO_ID, false, 2), 0, true));
uh_real_purge!(get1_tti_realpurge, 6, op_get::<IdH>(&cfgt(2, Some(3), false, W1, false, true, WO_ID, false, 4), 1, true));
uh_real_purge!(contains0_ttl_realpurge, 6, op_contains::<IdH>(&cfgt(2, Some(3), false, W1, true, false, WO_ID, false, 2), 0, true));
uh_real_purge!(contains1_max_dur_realpurge, 6, op_contains::<IdH>(&cfgt(3, None, false, W1, true, true, WO_ID, false, 7), 2, true));

// ---- expiry, thorough tier: everything about time symbolic ----
uh!(get_hit0_n2_ttl_sym, 6, op_get::<IdH>(&cfg(2, Some(3), false, W1, true, false, WO_REV2, false), 0, false));
uh!(get_hit1_n2_tti_sym, 6, op_get::<IdH>(&cfg(2, Some(3), false, W1, false, true, WO_ID, false), 1, false));
uh!(get_hit0_n2_both_sym, 6, op_get::<IdH>(&cfg(2, None, false, W1, true, true, WO_ID, false), 0, false));
uh!(contains_n2_both_sym, 6, op_contains::<IdH>(&cfg(2, Some(3), false, W1, true, true, WO_REV2, false), 0, false));
uh!(contains_n2_tti_sym, 6, op_contains::<IdH>(&cfg(2, Some(3), false, W1, false, true, WO_ID, false), 1, false));
uh!(iter_n2_both_sym, 6, op_iter::<IdH>(&cfg(2, Some(3), false, W1, true, true, WO_REV2, false)));
uh!(insert_upd0_n2_both_sym, 6, op_insert::<IdH>(&cfg(2, Some(3), false, W1, true, true, WO_ID, false), 0, 0));
uh!(insert_upd1_n2_ttl_rev_sym, 6, op_insert::<IdH>(&cfg(2, Some(3), false, W1, true, false, WO_REV2, false), 1, 0));
uh!(insert_new_n2_ttl_room_sym, 6, op_insert::<IdH>(&cfg(2, Some(3), false, W1, true, false, WO_REV2, false), 2, 0));
uh!(insert_new_n2_ttl_full_sym, 6, op_insert::<IdH>(&cfg(2, Some(2), false, W1, true, false, WO_REV2, false), 2, 0));
uh!(insert_new_n2_tti_full_sym, 6, op_insert::<IdH>(&cfg(2, Some(2), false, W1, false, true, WO_ID, false), 2, 0));
uh!(invalidate0_n2_both_sym, 6, op_invalidate::<IdH>(&cfg(2, Some(3), false, W1, true, true, WO_REV2, false), 0));
uh!(invalidate1_n2_ttl_sym, 6, op_invalidate::<IdH>(&cfg(2, Some(3), false, W1, true, false, WO_ID, false), 1));
uh!(invalidate_all_n2_both_sym, 6, op_invalidate_all::<IdH>(&cfg(2, Some(3), false, W1, true, true, WO_ID, false)));
uh!(invalidate_if_n2_ttl_sym, 6, op_invalidate_if::<IdH>(&cfg(2, Some(3), false, W1, true, false, WO_REV2, false), None));
// the purge itself (real evict_expired), weights distinct so that count and weight cannot be confused
uh_real_purge!(purge_n1_ttl_w_sym, 6, op_evict_expired::<IdH>(&cfg(1, Some(9), true, WT_A, true, false, WO_ID, false)));
uh_real_purge!(purge_n1_tti_w_sym, 6, op_evict_expired::<IdH>(&cfg(1, Some(9), true, WT_A, false, true, WO_ID, false)));
uh_real_purge!(purge_n2_ttl_w_sym, 6, op_evict_expired::<IdH>(&cfg(2, Some(9), true, WT_A, true, false, WO_REV2, false)));
uh_real_purge!(purge_n2_tti_w_sym, 6, op_evict_expired::<IdH>(&cfg(2, Some(9), true, WT_A, false, true, WO_ID, false)));
uh_real_purge!(purge_n2_both_w_sym, 6, op_evict_expired::<IdH>(&cfg(2, Some(9), true, WT_A, true, true, WO_REV2, false)));
// whole operations with the real purge (integration of the split), one resident
uh_real_purge!(get_n1_both_realpurge_sym, 6, op_get::<IdH>(&cfg(1, Some(2), false, W1, true, true, WO_ID, false), 0, true));
uh_real_purge!(contains_n1_ttl_realpurge_sym, 6, op_contains::<IdH>(&cfg(1, Some(2), false, W1, true, false, WO_ID, false), 0, true));

/// vacuity twin: builder + operation + comparison reach the end (must FAIL).
#[kani::proof]
#[kani::unwind(6)]
#[kani::stub(Cache::evict_expired, no_purge)]
#[kani::stub(std::time::Instant::now, now_stub)]
fn unsync_twin_must_fail() {
    let c0 = cfg(2, Some(3), false, W1, true, true, WO_REV2, false);
    let mut st = build::<IdH>(&c0);
    let got = st.c.get(&0u8).copied();
    assert!(got.is_none() && !got.is_none(), "VACUITY-TWIN: reached the end of the unsync harness");
    std::mem::forget(st);
}

// ================================================================================================
// K1: the expiry predicates themselves, every time value symbolic at nanosecond resolution
// ================================================================================================
#[kani::proof]
fn k1_is_expired_wo_iff_deadline_passed() {
    let lm = any_t();
    let now = any_t();
    let d = any_dur();
    let has_ts: bool = kani::any();
    let has_ttl: bool = kani::any();
    let node = DeqNode::new(KeyDate::new(Rc::new(0u8), if has_ts { Some(inst(lm)) } else { None }));
    let ttl = if has_ttl { Some(dur(d)) } else { None };
    let got = C::<IdH>::is_expired_entry_wo(&ttl, &node, inst(now));
    let want = has_ts && has_ttl && le(t_add(lm, d), now);
    assert!(got == want, "C05: is_expired_entry_wo <=> last_modified + ttl <= now");
    kani::cover!(got && has_ts && t_add(lm, d) == now, "exactly on the deadline");
    kani::cover!(!got && has_ts && has_ttl, "before the deadline");
    std::mem::forget(node);
}
#[kani::proof]
fn k1_is_expired_ao_iff_deadline_passed() {
    let la = any_t();
    let now = any_t();
    let d = any_dur();
    let has_ts: bool = kani::any();
    let has_tti: bool = kani::any();
    let node = DeqNode::new(KeyHashDate::new(Rc::new(0u8), 0, if has_ts { Some(inst(la)) } else { None }));
    let tti = if has_tti { Some(dur(d)) } else { None };
    let got = C::<IdH>::is_expired_entry_ao(&tti, &node, inst(now));
    let want = has_ts && has_tti && le(t_add(la, d), now);
    assert!(got == want, "C06: is_expired_entry_ao <=> last_accessed + tti <= now");
    kani::cover!(got && has_ts && t_add(la, d) == now, "exactly on the deadline");
    kani::cover!(!got && has_ts && has_tti, "before the deadline");
    std::mem::forget(node);
}
/// the same predicates through a map entry (timestamps live in the entry's deque nodes)
#[kani::proof]
#[kani::unwind(6)]
#[kani::stub(std::time::Instant::now, now_stub)]
fn k1_is_expired_entry_reads_the_entrys_own_nodes() {
    let c0 = cfg(2, Some(3), false, W1, true, true, WO_REV2, false);
    let st = build::<IdH>(&c0);
    let j: usize = kani::any();
    kani::assume(j < 2);
    let key = j as u8;
    let ent = st.c.cache.get(&key).unwrap();
    let got = st.c.is_expired_entry(ent);
    assert!(got == st.g.expired(j), "C05,C06: is_expired_entry(entry) <=> ttl or tti deadline of THAT entry passed at the current clock reading");
    kani::cover!(got, "expired");
    kani::cover!(!got, "live");
    std::mem::forget(st);
}

// ================================================================================================
// C17 helpers and lemmas on the size paths
// ================================================================================================
/// field-wise check of a freshly built cache (all private fields)
pub(crate) fn assert_fresh<S: BuildHasher + Clone>(c: &Cache<u8, Val, S>, cap: Option<u64>, ttl: Option<Duration>, tti: Option<Duration>, weigher: bool) {
    assert!(c.max_capacity == cap && c.time_to_live == ttl && c.time_to_idle == tti, "C17: configuration fields differ from the builder's knobs");
    assert!(c.entry_count == 0 && c.weighted_size == 0 && c.cache.len() == 0, "C17: fresh cache holds something");
    assert!(c.weigher.is_some() == weigher, "C17: weigher knob not honoured");
    assert!(!c.frequency_sketch_enabled && c.expiration_clock.is_none(), "C17: fresh cache state");
    assert!(dq::len(&c.deques.probation) == 0 && dq::len(&c.deques.write_order) == 0 && dq::len(&c.deques.window) == 0 && dq::len(&c.deques.protected) == 0, "C17: fresh deques not empty");
    assert!(sk::is_empty(&c.frequency_sketch), "C17: fresh sketch not empty");
}
pub(crate) fn weigh_of<S>(c: &mut Cache<u8, Val, S>, k: u8, v: Val) -> u32 {
    weigh(&mut c.weigher, &k, &v)
}

/// no max_capacity => the size paths are dead for every counter value
#[kani::proof]
#[kani::unwind(6)]
fn c17_unbounded_never_evicts_for_size() {
    let mut st = build::<IdH>(&cfg(0, None, false, W1, false, false, WO_ID, false));
    st.c.weighted_size = kani::any();
    st.c.entry_count = kani::any();
    let cw: u32 = kani::any();
    let ws: u64 = kani::any();
    assert!(st.c.has_enough_capacity(cw, ws), "C17: a cache built without max_capacity must always have room");
    assert!(st.c.weights_to_evict() == 0, "C17: a cache built without max_capacity never evicts for size");
    assert!(!st.c.should_enable_frequency_sketch() || st.c.frequency_sketch_enabled, "C17: unbounded cache has no use for the sketch");
    kani::cover!(true, "end reached");
    std::mem::forget(st);
}
/// with max_capacity: has_enough_capacity <=> ws + w <= cap ; weights_to_evict = ws -. cap (all values)
#[kani::proof]
#[kani::unwind(6)]
fn c04_capacity_arithmetic() {
    let mut st = build::<IdH>(&cfg(0, Some(0), false, W1, false, false, WO_ID, false));
    let cap: u64 = kani::any();
    st.c.max_capacity = Some(cap);
    let ws: u64 = kani::any();
    kani::assume(ws < (1u64 << 63)); // weighted_size is a saturating sum of u32 weights of resident entries
    st.c.weighted_size = ws;
    let cw: u32 = kani::any();
    assert!(st.c.has_enough_capacity(cw, ws) == (ws as u128 + cw as u128 <= cap as u128), "C04,C03: has_enough_capacity <=> weighted_size + weight <= max_capacity");
    assert!(st.c.weights_to_evict() == if ws > cap { ws - cap } else { 0 }, "C04,C12: weights_to_evict = excess over max_capacity");
    kani::cover!(ws + cw as u64 == cap, "exact fit");
    kani::cover!(true, "end reached");
    std::mem::forget(st);
}

// ================================================================================================
// Admission decision and victim choice for ALL weights: Cache::admit is read-only, so weights,
// candidate weight and sketch contents can all be symbolic here (the whole-operation queries above
// use concrete weight classes).
// ================================================================================================
fn admit_lemma(n: usize) {
    // residents with a SYMBOLIC weigher table; the entries' stored weights are irrelevant to admit(),
    // which re-weighs every potential victim through the weigher (as the real insert path does)
    let wsym: [u32; MAXN] = kani::any();
    let mut st = build::<IdH>(&cfg(n, Some(0), false, W1, false, false, WO_ID, false));
    let wt2 = wsym;
    st.c.weigher = Some(Box::new(move |k: &u8, _v: &Val| wt2[*k as usize]));
    let cw: u32 = kani::any();
    let ch: u8 = kani::any();
    kani::assume((ch as usize) < MAXN);
    let mut cand = EntrySizeAndFrequency::new(cw as u64);
    cand.add_frequency(&st.c.frequency_sketch, IdH::h(ch));
    let fc = st.c.frequency_sketch.frequency(IdH::h(ch)) as u32;
    let mut f = [0u32; MAXN];
    let mut i = 0;
    while i < n { f[i] = st.c.frequency_sketch.frequency(IdH::h(i as u8)) as u32; i += 1; }
    let r = { let C { cache, deques, frequency_sketch, weigher, .. } = &mut st.c; C::<IdH>::admit(&cand, cache, deques, frequency_sketch, weigher) };
    // reference: shortest LRU prefix whose weight covers the candidate's
    let mut pw = 0u64; let mut pf = 0u32; let mut nv = 0usize;
    let mut i = 0;
    while i < n { if pw < cw as u64 { pw += wsym[i] as u64; pf += f[i]; nv = i + 1; } i += 1; }
    let want = pw >= cw as u64 && fc > pf;
    match r {
        AdmissionResult::Admitted { victim_nodes, victims_weight } => {
            assert!(want, "C13: admitted although no covering LRU prefix exists or the candidate is not strictly more popular than it");
            assert!(victim_nodes.len() == nv, "C12,C13: victims are not the SHORTEST sufficient LRU prefix");
            assert!(victims_weight == pw, "C10,C13: victims_weight is not the summed weight of the victims");
            let (nodes, _, _) = dq::walk::<KeyHashDate<u8>, MAXN>(&st.c.deques.probation);
            let mut i = 0;
            while i < MAXN { if i < nv { assert!(Some(victim_nodes[i]) == nodes[i], "C12: victims are not the least recently used residents in LRU order"); } i += 1; }
            std::mem::forget(victim_nodes);
        }
        AdmissionResult::Rejected => assert!(!want, "C13: rejected although the covering LRU prefix is strictly less popular"),
    }
    kani::cover!(want && nv == n && n > 0, "admitted over all residents");
    kani::cover!(want && nv == 0, "zero-weight candidate admitted without victims");
    kani::cover!(!want && pw >= cw as u64, "rejected on popularity");
    kani::cover!(!want && pw < cw as u64, "rejected: no covering prefix");
    std::mem::forget(st);
}
#[kani::proof]
#[kani::unwind(6)]
fn admit_lemma_n1() { admit_lemma(1) }
#[kani::proof]
#[kani::unwind(6)]
fn admit_lemma_n2() { admit_lemma(2) }
#[kani::proof]
#[kani::unwind(6)]
fn admit_lemma_n3() { admit_lemma(3) }

/// evict_lru_entries for ALL weights and capacities: removes exactly the shortest LRU prefix whose
/// weight covers the excess; counters follow; nothing else changes.
fn evict_lru_lemma(n: usize) {
    let wsym: [u32; MAXN] = kani::any();
    let cap: u64 = kani::any();
    let mut st = build::<IdH>(&cfg(n, Some(0), false, W1, false, false, WO_ID, false));
    st.c.max_capacity = Some(cap);
    let mut ws = 0u64;
    let mut i = 0;
    while i < n {
        st.c.cache.get_mut(&(i as u8)).unwrap().set_policy_weight(wsym[i]);
        ws += wsym[i] as u64;
        i += 1;
    }
    st.c.weighted_size = ws;
    st.c.evict_lru_entries();
    let need = ws.saturating_sub(cap);
    let mut freed = 0u64; let mut nv = 0usize;
    let mut i = 0;
    while i < n { if freed < need { freed += wsym[i] as u64; nv = i + 1; } i += 1; }
    let mut i = 0;
    while i < MAXN {
        if i < n {
            let present = st.c.cache.get(&(i as u8)).is_some();
            assert!(present == (i >= nv), "C12,C04: evict_lru_entries must remove exactly the shortest LRU prefix covering the excess");
        }
        i += 1;
    }
    assert!(st.c.entry_count == (n - nv) as u64 && st.c.weighted_size == ws - freed, "C10: counters after eviction");
    assert!(st.c.weighted_size <= cap || nv == n, "C04: excess removed (or cache emptied)");
    let (_, an, ok) = dq::walk::<KeyHashDate<u8>, MAXN>(&st.c.deques.probation);
    assert!(ok && an == n - nv, "C08,C11: evicted entries' nodes unlinked");
    kani::cover!(nv == n && n > 0, "everything evicted");
    kani::cover!(nv == 0 && n > 0, "nothing evicted");
    if n >= 2 { kani::cover!(nv == 1 && freed == need && need > 0, "exact fit with one victim"); }
    std::mem::forget(st);
}
#[kani::proof]
#[kani::unwind(6)]
fn evict_lru_lemma_n1() { evict_lru_lemma(1) }
#[kani::proof]
#[kani::unwind(6)]
fn evict_lru_lemma_n2() { evict_lru_lemma(2) }
#[kani::proof]
#[kani::unwind(6)]
fn evict_lru_lemma_n3() { evict_lru_lemma(3) }

/// handle_update for ALL old/new weights: weighted_size moves by exactly (new - old), saturating.
#[kani::proof]
#[kani::unwind(6)]
fn handle_update_lemma_n2() {
    let mut st = build::<IdH>(&cfg(2, Some(0), false, W1, false, false, WO_ID, false));
    let (old_w, new_w): (u32, u32) = (kani::any(), kani::any());
    let ws0: u64 = kani::any();
    kani::assume(ws0 < (1u64 << 40) && ws0 >= old_w as u64);
    st.c.weighted_size = ws0;
    // what insert() did before calling handle_update: the new entry is in the map, the old one is handed over
    let key = 0u8;
    let rc = key_rc(&st.c, key);
    let nv = Val { cls: 1, data: kani::any() };
    let mut old = st.c.cache.insert(rc.clone(), ValueEntry::new(nv, new_w)).unwrap();
    old.set_policy_weight(old_w);
    st.c.handle_update(rc, None, new_w, old);
    assert!(st.c.weighted_size == (ws0 - old_w as u64).saturating_add(new_w as u64), "C10,C04: an update must move weighted_size by exactly (new weight - old weight)");
    assert!(st.c.entry_count == 2, "C10: an update must not change entry_count");
    let e = st.c.cache.get(&key).unwrap();
    assert!(e.value == nv && e.policy_weight() == new_w, "C01,C10: updated entry holds the new value and weight");
    let (nodes, an, ok) = dq::walk::<KeyHashDate<u8>, MAXN>(&st.c.deques.probation);
    assert!(ok && an == 2 && nodes[1] == e.access_order_q_node().map(|t| t.decompose().0), "C12: an update makes the entry most recently used");
    kani::cover!(new_w > old_w, "growing update");
    kani::cover!(new_w < old_w, "shrinking update");
    std::mem::forget(st);
}

/// handle_insert (what insert() runs for a NEW key after the map write) for ALL weights, candidate
/// weights, capacities and sketch contents: fits -> appended, nothing evicted; heavier than the
/// capacity -> removed again; otherwise admitted over exactly the shortest covering LRU prefix iff
/// strictly more popular, else removed again with every resident untouched; counters exact.
fn handle_insert_lemma(n: usize) {
    let wsym: [u32; MAXN] = kani::any();
    let cap: u64 = kani::any();
    let mut st = build::<IdH>(&cfg(n, Some(0), false, W1, false, false, WO_ID, false));
    st.c.max_capacity = Some(cap);
    let wt2 = wsym;
    st.c.weigher = Some(Box::new(move |k: &u8, _v: &Val| wt2[*k as usize]));
    let mut ws = 0u64;
    let mut i = 0;
    while i < n {
        st.c.cache.get_mut(&(i as u8)).unwrap().set_policy_weight(wsym[i]);
        ws += wsym[i] as u64;
        i += 1;
    }
    st.c.weighted_size = ws;
    kani::assume(ws <= cap); // evict_lru_entries ran just before (decided by evict_lru_lemma)
    let key = n as u8;
    let cw = wsym[n];
    let nv_val = Val { cls: 0, data: kani::any() };
    let fc = st.c.frequency_sketch.frequency(IdH::h(key)) as u32;
    let mut f = [0u32; MAXN];
    let mut i = 0;
    while i < n { f[i] = st.c.frequency_sketch.frequency(IdH::h(i as u8)) as u32; i += 1; }
    let rc = Rc::new(key);
    st.c.cache.insert(Rc::clone(&rc), ValueEntry::new(nv_val, cw));
    st.c.handle_insert(rc, IdH::h(key), cw, None);
    // reference
    let fits = ws + cw as u64 <= cap;
    let mut pw = 0u64; let mut pf = 0u32; let mut nv = 0usize;
    let mut admit = fits;
    if !fits && cw as u64 <= cap {
        let mut i = 0;
        while i < n { if pw < cw as u64 { pw += wsym[i] as u64; pf += f[i]; nv = i + 1; } i += 1; }
        admit = pw >= cw as u64 && fc > pf;
    }
    if !admit || fits { nv = 0; pw = 0; }
    let mut i = 0;
    while i < MAXN {
        if i < n { assert!(st.c.cache.get(&(i as u8)).is_some() == (i >= nv), "C12,C13,C03: residents removed by an insert must be exactly the shortest covering LRU prefix, and only on admission"); }
        i += 1;
    }
    assert!(st.c.cache.get(&key).is_some() == admit, "C13,C03,C04: newcomer retained iff it fits, or it is not heavier than the capacity and wins the admission");
    let cnt = (n - nv) as u64 + if admit { 1 } else { 0 };
    let sum = ws - pw + if admit { cw as u64 } else { 0 };
    assert!(st.c.entry_count == cnt && st.c.weighted_size == sum, "C10: counters after an insert");
    assert!(sum <= cap, "C04: resident weight within max_capacity after a fresh insert");
    let (_, an, ok) = dq::walk::<KeyHashDate<u8>, MAXN>(&st.c.deques.probation);
    assert!(ok && an as u64 == cnt, "C08,C11: access-order nodes == residents");
    kani::cover!(fits, "fits");
    kani::cover!(!fits && cw as u64 > cap, "heavier than the capacity");
    kani::cover!(!fits && admit && nv == n && n > 0, "admitted over all residents");
    kani::cover!(!fits && !admit && cw as u64 <= cap, "rejected by admission");
    std::mem::forget(st);
}
#[kani::proof]
#[kani::unwind(6)]
fn handle_insert_lemma_n1() { handle_insert_lemma(1) }
#[kani::proof]
#[kani::unwind(6)]
fn handle_insert_lemma_n2() { handle_insert_lemma(2) }

// ================================================================================================
// C11: every key and value handed to the cache is dropped exactly once: values replaced by an update
// and entries removed by invalidate at once, everything else when the cache itself is dropped.
// Whole operations through the public API from an EMPTY cache (history unrolling: bounded to 1-2
// inserts, see DESIGN.md 3), drop-counting value type, real drop glue of the cache (map model, deques).
// ================================================================================================
static mut DROPS: u32 = 0;
pub(crate) struct DV(u8);
impl Drop for DV { fn drop(&mut self) { unsafe { DROPS += 1; } } }
fn drops() -> u32 { unsafe { DROPS } }
type CD = Cache<u8, DV, BuildHasherDefault<IdH>>;

#[kani::proof]
#[kani::unwind(8)]
#[kani::stub(std::time::Instant::now, now_stub)]
fn c11_drop_cache_with_one_entry_releases_it_once() {
    let ttl: bool = kani::any();
    let mut c: CD = Cache::with_everything(Some(2), None, Default::default(), None, if ttl { Some(Duration::from_secs(10)) } else { None }, None);
    c.insert(0u8, DV(kani::any()));
    chk!(drops() == 0 && c.entry_count == 1, "C11: a value was dropped while its entry is resident");
    drop(c);
    chk!(drops() == 1, "C11: dropping the cache must drop every resident value exactly once");
    kani::cover!(true, "end of comparison reached");
}

#[kani::proof]
#[kani::unwind(8)]
#[kani::stub(std::time::Instant::now, now_stub)]
fn c11_update_and_invalidate_release_values_at_once() {
    let mut c: CD = Cache::with_everything(Some(2), None, Default::default(), None, None, None);
    c.insert(0u8, DV(1));
    c.insert(0u8, DV(2));
    chk!(drops() == 1, "C11: the replaced value must be dropped by the update (exactly once)");
    c.invalidate(&0u8);
    chk!(drops() == 2 && c.entry_count == 0, "C11: an invalidated value must be dropped at once (exactly once)");
    drop(c);
    chk!(drops() == 2, "C11: a value was dropped twice (or a phantom value dropped) when the cache was dropped");
    kani::cover!(true, "end of comparison reached");
}

#[kani::proof]
#[kani::unwind(8)]
#[kani::stub(std::time::Instant::now, now_stub)]
fn c11_evicted_and_rejected_values_are_released_at_once() {
    let mut c: CD = Cache::with_everything(Some(1), None, Default::default(), None, None, None);
    c.insert(0u8, DV(1));
    c.insert(1u8, DV(2));                       // never looked up: rejected (0 is not > 0), dropped at once
    chk!(drops() == 1 && c.entry_count == 1 && c.cache.get(&0u8).is_some(), "C11,C13: a rejected newcomer's value must be dropped at once, the resident stays");
    let miss = c.get(&2u8).is_none();           // recorded lookup: key 2 becomes more popular than key 0
    chk!(miss, "C01: absent key");
    c.insert(2u8, DV(3));                       // admitted over key 0
    chk!(c.cache.get(&2u8).is_some() && c.cache.get(&0u8).is_none(), "C13,C12: the looked-up newcomer displaces the never-read resident");
    chk!(drops() == 2, "C11: the evicted value must be dropped at once (exactly once)");
    drop(c);
    chk!(drops() == 3, "C11: every value handed to the cache is dropped exactly once overall");
    kani::cover!(true, "end of comparison reached");
}

#[kani::proof]
#[kani::unwind(8)]
#[kani::stub(std::time::Instant::now, now_stub)]
fn c11_expired_value_is_released_by_the_next_operation() {
    unsafe { NOW = (100, 0); }
    let mut c: CD = Cache::with_everything(Some(2), None, Default::default(), None, Some(Duration::from_secs(10)), None);
    // (native replay: stubs do not apply, the crate's own mock clock stands in for Instant::now)
    let mock = if cfg!(verif_native) { let (ck, m) = crate::common::time::clock::verif_clock::mock_at(instant_at(100, 0)); c.expiration_clock = Some(ck); Some(m) } else { None };
    c.insert(0u8, DV(1));
    unsafe { NOW = (110, 0); }                  // exactly on the deadline
    if let Some(m) = mock.as_ref() { crate::common::time::clock::verif_clock::set(m, instant_at(110, 0)); }
    let seen = c.contains_key(&0u8);            // (&mut self on this cache: runs the purge)
    chk!(!seen, "C05: entry observable on its ttl deadline");
    chk!(drops() == 1 && c.entry_count == 0 && c.weighted_size == 0, "C11,C10: an expired entry must be released by the next maintenance (value dropped once, counters given back)");
    let miss = c.get(&0u8).is_none();
    chk!(miss && drops() == 1, "C05,C11: expired entry came back or was dropped twice");
    drop(c);
    chk!(drops() == 1, "C11: expired value dropped twice");
    kani::cover!(true, "end of comparison reached");
}
