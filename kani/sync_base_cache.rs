// Kani harnesses for sync::base_cache (child module: sees Inner / BaseCache private state).
//
// The concurrent cache is decided AT FUNCTION LEVEL from structured states (DESIGN.md 5.3):
// dashmap and crossbeam-channel are replaced by single-threaded models (/verif/models), so every
// harness is one sequential call of a real mini-moka function from a directly built state with
// n <= 2 admitted residents (+ optional pending write/read operations referring to them).
// No thread schedules are explored anywhere (property C02 is not applicable to this technique).
use super::*;
use crate::common::deque::verif_deque as dq;
use crate::common::frequency_sketch::verif_sketch as sk;
use crate::verif_models::common::{instant_at, le, IdH, Val, HK, MAXN, W1, WT_2V, WT_A, WT_S, YEARS_1000};
use std::hash::BuildHasherDefault;

pub(crate) type BH = BuildHasherDefault<IdH>;
pub(crate) type In = Inner<u8, Val, BH>;
pub(crate) type Bc = BaseCache<u8, Val, BH>;
type T = (u64, u32);
type Ent = TrioArc<ValueEntry<u8, Val>>;
/// property checks are taken or skipped by a fresh nondeterministic choice (Kani's assert! is assert-then-assume:
/// behind a failing assertion nothing else would be reported on that path; see unsync_cache.rs)
macro_rules! chk {
    ($cond:expr, $msg:expr) => { if kani::any::<bool>() { assert!($cond, $msg) } };
}


pub(crate) static mut NOW: T = (0, 0);
pub(crate) static mut MOCK: Option<Arc<crate::common::time::clock::Mock>> = None;
/// 0: symbolic sketch contents; 1: concrete empty sketch; 2: concrete, key SKETCH_HOT recorded 3 times;
/// 3: sketch not enabled yet (unallocated)
pub(crate) static mut SKETCH_MODE: u8 = 0;
pub(crate) static mut SKETCH_HOT: u8 = 0;
pub(crate) fn sketch_mode(m: u8, hot: u8) { unsafe { SKETCH_MODE = m; SKETCH_HOT = hot; } }
pub(crate) fn now_stub() -> std::time::Instant {
    let t = unsafe { NOW };
    instant_at(t.0, t.1)
}
/// std's futex locks (and crossbeam's back-off) reach their spin hint only when the lock is CONTENDED; in
/// these sequential executions the only possible holder is the calling thread itself, which then waits
/// for ever. Stub of std::hint::spin_loop in every sync harness.
pub(crate) fn spin_stub() {
    assert!(false, "C09: sequential execution spins on a contended lock (only the calling thread itself can hold it: self-deadlock, the operation never returns)");
}
fn inst(t: T) -> Instant { Instant::new(instant_at(t.0, t.1)) }
fn dur(t: T) -> Duration { Duration::new(t.0, t.1) }
fn t_add(a: T, d: T) -> T {
    let mut s = a.0 + d.0;
    let mut n = a.1 + d.1;
    if n >= 1_000_000_000 { n -= 1_000_000_000; s += 1; }
    (s, n)
}
fn lt(a: T, b: T) -> bool { !le(b, a) }
fn any_t() -> T {
    let s: u64 = kani::any();
    let n: u32 = kani::any();
    kani::assume(s < (1u64 << 36) && n < 1_000_000_000);
    (s, n)
}
fn any_dur() -> T {
    let s: u64 = kani::any();
    let n: u32 = kani::any();
    kani::assume(n < 1_000_000_000 && (s < YEARS_1000 || (s == YEARS_1000 && n == 0)));
    (s, n)
}

#[derive(Clone, Copy)]
pub(crate) struct SCfg {
    pub n: usize,              // admitted residents: keys 0..n, key i at LRU position i
    pub cap: Option<u64>,
    pub weigher: bool,
    pub wt: [[u32; MAXN]; 2],
    pub ttl: bool,
    pub tti: bool,
    pub va: bool,              // invalidate_all watermark set
    pub tc: usize,             // 0 = symbolic times, k = STC[k]
}

#[derive(Clone, Copy)]
pub(crate) struct STc { pub now: T, pub ttl: T, pub tti: T, pub va: T, pub la: [T; MAXN], pub lm: [T; MAXN] }
pub(crate) const STCS: [STc; 10] = [
    STc { now: (0, 0), ttl: (0, 0), tti: (0, 0), va: (0, 0), la: [(0, 0); MAXN], lm: [(0, 0); MAXN] },
    // 1: everything live; watermark older than every entry
    STc { now: (100, 0), ttl: (50, 5), tti: (30, 0), va: (10, 0), la: [(80, 0), (85, 0), (90, 0), (0, 0)], lm: [(60, 0), (70, 0), (80, 0), (0, 0)] },
    // 2: key 0 exactly on its ttl deadline
    STc { now: (100, 0), ttl: (50, 5), tti: (30, 0), va: (10, 0), la: [(80, 0), (85, 0), (90, 0), (0, 0)], lm: [(49, 999_999_995), (70, 0), (80, 0), (0, 0)] },
    // 3: key 0 exactly on its tti deadline, key 1 one ns before
    STc { now: (100, 0), ttl: (50, 5), tti: (30, 0), va: (10, 0), la: [(70, 0), (70, 1), (90, 0), (0, 0)], lm: [(60, 0), (70, 0), (80, 0), (0, 0)] },
    // 4: watermark: key 0 written strictly before invalidate_all, key 1 at the SAME reading, key 2 after
    STc { now: (100, 0), ttl: (50, 5), tti: (30, 0), va: (85, 0), la: [(84, 999_999_999), (85, 0), (90, 0), (0, 0)], lm: [(84, 999_999_999), (85, 0), (86, 0), (0, 0)] },
    // 5: watermark == now (invalidate_all just called), key 1 written at the same reading
    STc { now: (100, 0), ttl: (50, 5), tti: (30, 0), va: (100, 0), la: [(99, 0), (100, 0), (100, 0), (0, 0)], lm: [(99, 0), (100, 0), (100, 0), (0, 0)] },
    // 6: key 0 expired by ttl, key 1 live (for purge)
    STc { now: (100, 0), ttl: (50, 0), tti: (40, 0), va: (10, 0), la: [(50, 0), (85, 0), (90, 0), (0, 0)], lm: [(40, 0), (70, 0), (80, 0), (0, 0)] },
    // 7: invalidate_all just called (watermark == now); every resident was written strictly before it
    STc { now: (100, 0), ttl: (50, 5), tti: (30, 0), va: (100, 0), la: [(98, 0), (99, 0), (99, 5), (0, 0)], lm: [(98, 0), (99, 0), (99, 5), (0, 0)] },
    // 8: class 2 seen 1 ns EARLIER (key 0 one ns before its ttl deadline): used as the clock reading at which an iterator is created
    STc { now: (99, 999_999_999), ttl: (50, 5), tti: (30, 0), va: (10, 0), la: [(80, 0), (85, 0), (90, 0), (0, 0)], lm: [(49, 999_999_995), (70, 0), (80, 0), (0, 0)] },
    // 9: key 0 WRITTEN before invalidate_all but last READ at the very reading of invalidate_all (a hit recorded at that
    //    reading, before the call, and applied by a later maintenance run): lm0 < va == la0. Hidden by its write time alone.
    STc { now: (100, 0), ttl: (50, 5), tti: (30, 0), va: (85, 0), la: [(85, 0), (90, 0), (95, 0), (0, 0)], lm: [(84, 0), (86, 0), (87, 0), (0, 0)] },
];

/// ghost of the abstract state
#[derive(Clone, Copy)]
pub(crate) struct SG {
    pub present: [bool; MAXN],   // key in the map
    pub admitted: [bool; MAXN],  // has deque nodes, counted
    pub dirty: [bool; MAXN],
    pub v: [Val; MAXN],
    pub w: [u32; MAXN],          // weight stored in the (shared) EntryInfo
    pub la: [T; MAXN],
    pub lm: [T; MAXN],
    pub ao: [u8; MAXN],
    pub ao_n: usize,
    pub wo: [u8; MAXN],
    pub wo_n: usize,
    pub now: T,
    pub ttl: Option<T>,
    pub tti: Option<T>,
    pub va: Option<T>,
    pub cap: Option<u64>,
    pub has_ttl: bool,
    pub weigher: bool,
    pub wt: [[u32; MAXN]; 2],
    pub ec: u64,
    pub ws: u64,
    pub sk_words: [u64; 4],
    pub sk_size: u32,
}

impl SG {
    pub(crate) fn weigh(&self, k: usize, v: Val) -> u32 { if self.weigher { self.wt[(v.cls & 1) as usize][k] } else { 1 } }
    /// what every lookup must treat as gone at the current clock reading
    pub(crate) fn hidden(&self, i: usize) -> bool {
        let mut e = false;
        if let Some(va) = self.va { e |= lt(self.lm[i], va) || lt(self.la[i], va); }
        if let Some(d) = self.ttl { e |= le(t_add(self.lm[i], d), self.now); }
        if let Some(d) = self.tti { e |= le(t_add(self.la[i], d), self.now); }
        e
    }
    fn remove_from(order: &mut [u8; MAXN], n: &mut usize, k: u8) {
        let mut out = [255u8; MAXN];
        let mut m = 0;
        let mut i = 0;
        while i < MAXN { if i < *n && order[i] != k { out[m] = order[i]; m += 1; } i += 1; }
        *order = out;
        *n = m;
    }
    pub(crate) fn unadmit(&mut self, k: usize) {
        if self.admitted[k] {
            self.admitted[k] = false;
            self.ec -= 1;
            self.ws = self.ws.saturating_sub(self.w[k] as u64);
            Self::remove_from(&mut self.ao, &mut self.ao_n, k as u8);
            Self::remove_from(&mut self.wo, &mut self.wo_n, k as u8);
        }
    }
    pub(crate) fn touch_ao(&mut self, k: usize) {
        Self::remove_from(&mut self.ao, &mut self.ao_n, k as u8);
        self.ao[self.ao_n] = k as u8;
        self.ao_n += 1;
    }
    pub(crate) fn touch_wo(&mut self, k: usize) {
        if self.has_ttl {
            Self::remove_from(&mut self.wo, &mut self.wo_n, k as u8);
            self.wo[self.wo_n] = k as u8;
            self.wo_n += 1;
        }
    }
    pub(crate) fn admit_back(&mut self, k: usize, w: u32) {
        self.admitted[k] = true;
        self.ec += 1;
        self.ws = self.ws.saturating_add(w as u64);
        self.ao[self.ao_n] = k as u8; self.ao_n += 1;
        if self.has_ttl { self.wo[self.wo_n] = k as u8; self.wo_n += 1; }
    }
}

pub(crate) struct SSt {
    pub b: Bc,
    pub g: SG,
    pub ent: [Option<Ent>; MAXN],
    pub key: [Option<Arc<u8>>; MAXN],
}

pub(crate) const QCAP: usize = 4;
const MAX_SYNC_REPEATS_PUB: usize = crate::common::concurrent::constants::MAX_SYNC_REPEATS;

pub(crate) fn sbuild(cfg: &SCfg) -> SSt {
    let n = cfg.n;
    let tc = STCS[cfg.tc];
    let sym = cfg.tc == 0;
    let now = if sym { any_t() } else { tc.now };
    let ttl = if cfg.ttl { Some(if sym { any_dur() } else { tc.ttl }) } else { None };
    let tti = if cfg.tti { Some(if sym { any_dur() } else { tc.tti }) } else { None };
    let va = if cfg.va { Some(if sym { any_t() } else { tc.va }) } else { None };
    if let Some(v) = va { kani::assume(le(v, now)); }
    unsafe { NOW = now; }
    let wt = cfg.wt;
    let weigher: Option<Weigher<u8, Val>> = if cfg.weigher {
        Some(Arc::new(move |k: &u8, v: &Val| wt[(v.cls & 1) as usize][*k as usize]))
    } else {
        None
    };
    let (r_snd, r_rcv) = crossbeam_channel::bounded(QCAP);
    let (w_snd, w_rcv) = crossbeam_channel::bounded(QCAP);
    let inner: In = Inner::new(cfg.cap, None, BH::default(), weigher, r_rcv, w_rcv, ttl.map(dur), tti.map(dur));
    // clock: `Instant::now` is stubbed (now_stub) for the Kani run; the NATIVE replay of a counterexample
    // (stubs do not apply there; built with --cfg verif_native) uses the crate's own mock clock instead
    if cfg!(verif_native) {
        let (clock, mock) = crate::common::time::clock::verif_clock::mock_at(instant_at(now.0, now.1));
        *inner.expiration_clock.write().expect("lock poisoned") = Some(clock);
        inner.has_expiration_clock.store(true, Ordering::SeqCst);
        unsafe { MOCK = Some(mock); }
    }
    let sketch = match unsafe { SKETCH_MODE } {
        0 => { let s = sk::any_sketch_pub::<4>(); sk::assume_sizing_inv_pub::<4>(&s); s }
        m => {
            // CONCRETE sketch (admission decisions become constants of the symbolic execution, so the
            // heap shape after handle_upsert is concrete): empty table (nothing is popular: every
            // admission is rejected), or key SKETCH_HOT looked up three times through the real increment
            let mut s = sk::rebuild4([0; 4], 0, &sk::sizing4());
            if m == 2 { let h = IdH::h(unsafe { SKETCH_HOT }); s.increment(h); s.increment(h); s.increment(h); }
            s
        }
    };
    let (sk_words, sk_size) = sk::snapshot4(&sketch);
    *inner.frequency_sketch.write().expect("lock poisoned") = sketch;
    inner.frequency_sketch_enabled.store(true, Ordering::Release);
    if unsafe { SKETCH_MODE } == 3 {
        // the sketch has not been enabled yet (cache was under half full at the end of the last run)
        *inner.frequency_sketch.write().expect("lock poisoned") = Default::default();
        inner.frequency_sketch_enabled.store(false, Ordering::Release);
    }
    if let Some(v) = va { inner.valid_after.set_instant(inst(v)); }
    let mut g = SG {
        present: [false; MAXN], admitted: [false; MAXN], dirty: [false; MAXN],
        v: [Val { cls: 0, data: 0 }; MAXN], w: [0; MAXN], la: [(0, 0); MAXN], lm: [(0, 0); MAXN],
        ao: [255; MAXN], ao_n: 0, wo: [255; MAXN], wo_n: 0, now, ttl, tti, va, cap: cfg.cap,
        has_ttl: cfg.ttl, weigher: cfg.weigher, wt, ec: 0, ws: 0, sk_words, sk_size,
    };
    let mut ent: [Option<Ent>; MAXN] = [None, None, None, None];
    let mut key: [Option<Arc<u8>>; MAXN] = [None, None, None, None];
    {
        let mut deqs = inner.deques.lock().expect("lock poisoned");
        let mut i = 0;
        while i < n {
            let d: u8 = kani::any();
            g.v[i] = Val { cls: 0, data: d };
            g.w[i] = g.weigh(i, g.v[i]);
            g.la[i] = if sym { any_t() } else { tc.la[i] };
            g.lm[i] = if sym { any_t() } else { tc.lm[i] };
            kani::assume(le(g.lm[i], g.la[i]) && le(g.la[i], now));
            if i > 0 { kani::assume(le(g.la[i - 1], g.la[i]) && le(g.lm[i - 1], g.lm[i])); }
            let k = Arc::new(i as u8);
            let info = TrioArc::new(EntryInfo::new(inst(g.lm[i]), g.w[i]));
            info.set_last_accessed(inst(g.la[i]));
            info.set_dirty(false);
            crate::common::concurrent::entry_info::verif_entry_info::register_w(&info, i, true, false, g.w[i]);
            let e: Ent = TrioArc::new(ValueEntry::new(g.v[i], info));
            inner.cache.insert(Arc::clone(&k), TrioArc::clone(&e));
            let kh = KeyHash::new(Arc::clone(&k), IdH::h(i as u8));
            deqs.push_back_ao(CacheRegion::MainProbation, KeyHashDate::new(kh, e.entry_info()), &e);
            if cfg.ttl { deqs.push_back_wo(KeyDate::new(Arc::clone(&k), e.entry_info()), &e); }
            e.set_admitted(true);
            g.present[i] = true;
            g.admitted[i] = true;
            g.ao[i] = i as u8;
            if cfg.ttl { g.wo[i] = i as u8; }
            g.ec += 1;
            g.ws += g.w[i] as u64;
            ent[i] = Some(e);
            key[i] = Some(k);
            i += 1;
        }
        g.ao_n = n;
        g.wo_n = if cfg.ttl { n } else { 0 };
    }
    inner.entry_count.store(g.ec);
    inner.weighted_size.store(g.ws);
    inner.cache.verif_reset_stats();
    let b = BaseCache { inner: Arc::new(inner), read_op_ch: r_snd, write_op_ch: w_snd, housekeeper: None };
    SSt { b, g, ent, key }
}

/// structural + abstract comparison of the sync state with the ghost (concrete-key lookups only)
pub(crate) fn scompare(inner: &In, deqs: &Deques<u8>, ec: u64, ws: u64, e: &SG, nkeys: usize) {
    let mut pao: [Option<NonNull<DeqNode<KeyHashDate<u8>>>>; MAXN] = [None; MAXN];
    let mut pwo: [Option<NonNull<DeqNode<KeyDate<u8>>>>; MAXN] = [None; MAXN];
    let mut adm = 0u64;
    let mut sum = 0u64;
    let mut k = 0;
    while k < MAXN {
        if k < nkeys {
            let key = k as u8;
            match inner.cache.get(&key) {
                None => chk!(!e.present[k], "C03,C01,C13,C12,C07: an entry the model keeps is gone from the map (spurious loss / wrong victim / imprecise invalidation)"),
                Some(r) => {
                    let ent: &Ent = r.value();
                    chk!(e.present[k], "C01,C07,C04,C13: an entry the model removes/rejects is still in the map");
                    chk!(ent.value == e.v[k], "C01: map holds a value other than the latest insert");
                    chk!(ent.policy_weight() == e.w[k], "C10,C04: entry weight differs from the model");
                    chk!(ent.last_accessed() == Some(inst(e.la[k])), "C06,C15,C03,C07: last_accessed differs from the model (only insert/update set it to now; an applied read may only move it forward)");
                    chk!(ent.last_modified() == Some(inst(e.lm[k])), "C05: last_modified differs from the model");
                    chk!(ent.is_admitted() == e.admitted[k], "C10,C08: is_admitted differs from the model");
                    chk!(ent.is_dirty() == e.dirty[k], "C05,C06: is_dirty differs from the model");
                    if e.admitted[k] {
                        adm += 1;
                        sum += ent.policy_weight() as u64;
                        match ent.access_order_q_node() {
                            Some(t) => {
                                let (p, tag) = t.decompose();
                                chk!(tag == CacheRegion::MainProbation as usize, "C08: access-order pointer carries the wrong region tag");
                                let el = unsafe { &p.as_ref().element };
                                chk!(**el.key() == key && el.hash() == IdH::h(key), "C08,C12,C13: entry's access-order node carries another key/hash");
                                pao[k] = Some(p);
                            }
                            None => chk!(false, "C08: admitted entry without access-order node"),
                        }
                        match ent.write_order_q_node() {
                            Some(p) => {
                                chk!(e.has_ttl, "C05,C08: write-order node without ttl");
                                chk!(**unsafe { &p.as_ref().element }.key() == key, "C08,C05: entry's write-order node carries another key");
                                pwo[k] = Some(p);
                            }
                            None => chk!(!e.has_ttl, "C05: admitted entry without write-order node although ttl is set"),
                        }
                    } else {
                        chk!(ent.access_order_q_node().is_none() && ent.write_order_q_node().is_none(), "C08,C11: non-admitted entry keeps deque nodes");
                    }
                }
            }
        }
        k += 1;
    }
    chk!(ec == e.ec && ws == e.ws, "C10: counters differ from the model");
    chk!(ec == adm, "C10: entry_count != number of admitted entries physically held");
    chk!(ws == sum, "C10: weighted_size != sum of the weights of admitted entries");
    let (nodes, an, ok) = dq::walk::<KeyHashDate<u8>, { MAXN }>(&deqs.probation);
    chk!(ok, "C08: access-order deque is not a well-formed list");
    chk!(an == e.ao_n, "C08,C11: access-order deque length != admitted entries (ghost or missing node)");
    let mut i = 0;
    while i < MAXN {
        if i < e.ao_n && i < an {
            let k = e.ao[i] as usize;
            chk!(k < MAXN && nodes[i] == pao[k], "C12: recency order differs from the model");
        }
        i += 1;
    }
    let (wnodes, wn, wok) = dq::walk::<KeyDate<u8>, { MAXN }>(&deqs.write_order);
    chk!(wok, "C08: write-order deque is not a well-formed list");
    chk!(wn == e.wo_n, "C08,C11,C05: write-order deque length != admitted entries (iff ttl)");
    let mut i = 0;
    while i < MAXN {
        if i < e.wo_n && i < wn {
            let k = e.wo[i] as usize;
            chk!(k < MAXN && wnodes[i] == pwo[k], "C05: write order differs from the model");
        }
        i += 1;
    }
    chk!(dq::len(&deqs.window) == 0 && dq::len(&deqs.protected) == 0, "C08: unused deques not empty");
    kani::cover!(true, "end of comparison reached");
}

fn sketch_unchanged_or_inc(inner: &In, e: &SG, inc: Option<u64>) {
    let f = inner.frequency_sketch.read().expect("lock poisoned");
    let (words, size) = sk::snapshot4(&f);
    let mut s2 = sk::rebuild4(e.sk_words, e.sk_size, &f);
    if let Some(h) = inc { s2.increment(h); }
    let (w2, z2) = sk::snapshot4(&s2);
    chk!(words[0] == w2[0] && words[1] == w2[1] && words[2] == w2[2] && words[3] == w2[3] && size == z2,
            "C14,C15: popularity sketch differs from the model (only applied reads record, exactly once)");
    std::mem::forget(s2);
}

fn with_state<R>(st: &SSt, f: impl FnOnce(&In, &Deques<u8>) -> R) -> R {
    let d = st.b.inner.deques.lock().expect("lock poisoned");
    f(&st.b.inner, &d)
}

// ================================================================================================
// K1 (sync): the expiry / watermark predicates, everything symbolic
// ================================================================================================
#[kani::proof]
#[kani::unwind(6)]
fn s_k1_is_expired_wo() {
    let (lm, now, d, v) = (any_t(), any_t(), any_dur(), any_t());
    let has_ttl: bool = kani::any();
    let has_va: bool = kani::any();
    let info = TrioArc::new(EntryInfo::<u8>::new(inst(lm), 1));
    let e: Ent = TrioArc::new(ValueEntry::new(Val { cls: 0, data: 0 }, info));
    let ttl = if has_ttl { Some(dur(d)) } else { None };
    let va = if has_va { Some(inst(v)) } else { None };
    let got = is_expired_entry_wo(&ttl, &va, &e, inst(now));
    let want = (has_va && lt(lm, v)) || (has_ttl && le(t_add(lm, d), now));
    chk!(got == want, "C05,C07: is_expired_entry_wo <=> last_modified < valid_after  or  last_modified + ttl <= now");
    kani::cover!(got && has_va && has_ttl && !lt(lm, v), "ttl deadline with watermark set");
    kani::cover!(!got && has_va && lm == v, "written at the same reading as invalidate_all: unaffected");
    std::mem::forget(e);
}
#[kani::proof]
#[kani::unwind(6)]
fn s_k1_is_expired_ao() {
    let (la, now, d, v) = (any_t(), any_t(), any_dur(), any_t());
    let has_tti: bool = kani::any();
    let has_va: bool = kani::any();
    let info = TrioArc::new(EntryInfo::<u8>::new(inst(la), 1));
    let e: Ent = TrioArc::new(ValueEntry::new(Val { cls: 0, data: 0 }, info));
    let tti = if has_tti { Some(dur(d)) } else { None };
    let va = if has_va { Some(inst(v)) } else { None };
    let got = is_expired_entry_ao(&tti, &va, &e, inst(now));
    let want = (has_va && lt(la, v)) || (has_tti && le(t_add(la, d), now));
    chk!(got == want, "C06,C07: is_expired_entry_ao <=> last_accessed < valid_after  or  last_accessed + tti <= now");
    kani::cover!(got && has_va && has_tti && !lt(la, v), "tti deadline with watermark set");
    kani::cover!(!got && has_va && la == v, "accessed at the same reading as invalidate_all: unaffected");
    std::mem::forget(e);
}

// ================================================================================================
// lookups: contains_key / get_with_hash / is_expired_entry (iteration filter)
// ================================================================================================
fn s_lookup(cfg: &SCfg, j: usize, which: u8) {
    let st = sbuild(cfg);
    let e = st.g;
    let key = j as u8;
    let hidden = j >= cfg.n || st.g.hidden(j);
    let b = &st.b;
    match which {
        0 => {
            let got = b.contains_key(&key);
            chk!(got == !hidden, "C01,C03,C05,C06,C07: contains_key != (present and not expired/invalidated)");
            chk!(b.read_op_ch.len() == 0 && b.write_op_ch.len() == 0, "C15,C06,C14: contains_key must not record anything");
        }
        1 => {
            let got = b.get_with_hash(&key, IdH::h(key));
            if hidden {
                chk!(got.is_none(), "C01,C05,C06,C07: get returns an expired / invalidated / absent entry");
            } else {
                chk!(got == Some(st.g.v[j]), "C01,C03: get of a live entry does not return its latest value");
            }
            chk!(b.read_op_ch.len() == 1 && b.write_op_ch.len() == 0, "C14: get records exactly one read op");
            match b.inner.read_op_ch.try_recv() {
                Ok(ReadOp::Hit(h, ent, ts)) => {
                    chk!(!hidden, "C14,C06: a hit is recorded for a hidden entry");
                    chk!(h == IdH::h(key) && ts == inst(e.now), "C06,C14: recorded hit carries the wrong hash or clock reading");
                    chk!(TrioArc::ptr_eq(&ent, st.ent[j].as_ref().unwrap()), "C06,C12: recorded hit refers to another entry");
                }
                Ok(ReadOp::Miss(h)) => {
                    chk!(hidden, "C06,C12: a live hit is recorded as a miss (idle timer / recency not refreshed)");
                    chk!(h == IdH::h(key), "C14: recorded miss carries the wrong hash");
                }
                Err(_) => chk!(false, "C14: no read op recorded"),
            }
        }
        _ => {
            // through the real iterator (src/sync/iter.rs over the map model): key j is yielded iff live, once
            let mut it = b.iter();
            let mut seen = 0u32;
            let mut i = 0;
            while i < MAXN {
                if let Some(r) = it.next() { if *r.key() == key { seen += 1; chk!(*r.value() == st.g.v[j], "C16,C01: iteration yields a value other than the latest insert"); } }
                i += 1;
            }
            drop(it);
            chk!(seen <= 1, "C16: iteration yields an entry twice");
            chk!((seen == 1) == !hidden, "C16,C01,C05,C06,C07: iteration filter is_expired_entry != (expired or invalidated): iteration must yield exactly the live entries");
        }
    }
    let (r, w, rm) = b.inner.cache.verif_stats();
    chk!(w == 0 && rm == 0, "C01,C15: a lookup must not write to or remove from the map");
    chk!(which == 2 || r == 1, "C01: a lookup is exactly one atomic map read");
    with_state(&st, |inner, d| {
        scompare(inner, d, inner.entry_count.load(), inner.weighted_size.load(), &e, cfg.n + 1);
        sketch_unchanged_or_inc(inner, &e, None);
    });
    std::mem::forget(st);
}

// ================================================================================================
// writes: do_insert_with_hash (map step of insert), invalidate_all
// ================================================================================================
fn s_insert(cfg: &SCfg, j: usize, cls: u8) {
    let st = sbuild(cfg);
    let mut e = st.g;
    let key = j as u8;
    let nv = Val { cls, data: kani::any() };
    let wn = st.g.weigh(j, nv);
    let (op, ts) = st.b.do_insert_with_hash(Arc::new(key), IdH::h(key), nv);
    chk!(ts == inst(e.now), "C05,C06: insert stamps another clock reading than now");
    let (r, w, rm) = st.b.inner.cache.verif_stats();
    chk!(w == 1 && rm == 0, "C01: insert is exactly one atomic map write");
    let _ = r;
    match op {
        WriteOp::Upsert { key_hash, value_entry, old_weight, new_weight } => {
            chk!(*key_hash.key == key && key_hash.hash == IdH::h(key), "C01: write op carries the wrong key/hash");
            chk!(new_weight == wn, "C10,C04: write op carries a weight other than weigher(key, value)");
            chk!(old_weight == if j < cfg.n { st.g.w[j] } else { 0 }, "C10: write op carries the wrong old weight");
            let cur = st.b.inner.cache.get(&key);
            chk!(cur.is_some() && TrioArc::ptr_eq(cur.as_ref().unwrap().value(), &value_entry), "C01: write op's entry is not the one now in the map");
            if j < cfg.n {
                chk!(TrioArc::ptr_eq(value_entry.entry_info(), st.ent[j].as_ref().unwrap().entry_info()), "C08,C10: update does not share the resident's EntryInfo (deque nodes would be orphaned)");
            }
            std::mem::forget(value_entry);
        }
        WriteOp::Remove(_) => chk!(false, "C01: insert produced a Remove op"),
    }
    // the written key is observable at once (whatever hid its previous version: watermark, deadlines), through
    // contains_key and through the real iterator, with the new value
    if !le(t_add(e.now, e.ttl.unwrap_or((1, 0))), e.now) && !le(t_add(e.now, e.tti.unwrap_or((1, 0))), e.now) {
        chk!(st.b.contains_key(&key), "C07,C01,C03,C16: a key written just now (after invalidate_all / after its old version expired) is not observable");
        let mut it = st.b.iter();
        let mut seen = 0u32;
        let mut i = 0;
        while i < MAXN {
            if let Some(r) = it.next() { if *r.key() == key { seen += 1; chk!(*r.value() == nv, "C16,C01: iteration yields a stale value for a key written just now"); } }
            i += 1;
        }
        drop(it);
        chk!(seen == 1, "C16,C07,C01,C03: iteration must yield a key written just now exactly once");
    }
    // model: value replaced at once; shared info: dirty, timestamps = now, weight = new
    e.present[j] = true;
    e.v[j] = nv;
    e.w[j] = wn;
    e.la[j] = e.now;
    e.lm[j] = e.now;
    e.dirty[j] = true;
    with_state(&st, |inner, d| {
        // counters are maintenance state: unchanged until the op is applied; the (shared) weight of an
        // admitted entry already changed, so compare counters against the model's own bookkeeping only
        let (ec, ws) = (inner.entry_count.load(), inner.weighted_size.load());
        chk!(ec == e.ec && ws == e.ws, "C10: insert must not touch the counters before maintenance");
        let mut e2 = e;
        if j < cfg.n { e2.ws = e2.ws - st.g.w[j] as u64 + wn as u64; }
        scompare(inner, d, ec, e2.ws, &e2, cfg.n + 1);
        sketch_unchanged_or_inc(inner, &e, None);
    });
    std::mem::forget(st);
}

fn s_invalidate_all(cfg: &SCfg) {
    let st = sbuild(cfg);
    st.b.invalidate_all();
    chk!(st.b.inner.valid_after() == Some(inst(st.g.now)), "C07: invalidate_all must set the watermark to the current clock reading");
    let mut g2 = st.g;
    g2.va = Some(st.g.now);
    // every resident written at a strictly earlier reading is hidden from now on; same-reading ones are not
    let mut i = 0;
    while i < cfg.n {
        let key = i as u8;
        let hid = g2.hidden(i);
        chk!(st.b.contains_key(&key) == !hid, "C07: after invalidate_all contains_key disagrees with (written strictly before the call => gone)");
        if lt(st.g.lm[i], st.g.now) { chk!(hid, "C07: an entry written strictly before invalidate_all is still observable"); }
        i += 1;
    }
    let (_, w, rm) = st.b.inner.cache.verif_stats();
    chk!(w == 0 && rm == 0, "C07: invalidate_all is lazy: no map mutation");
    kani::cover!(true, "end reached");
    std::mem::forget(st);
}

// ================================================================================================
// maintenance steps: handle_upsert / handle_remove / apply_reads / evict_lru_entries / evict_expired
// ================================================================================================
/// handle_upsert for a pending op of key j. `stale_w`: the op's recorded new_weight differs from
/// the weight now stored in the shared EntryInfo (a later update of the same key is still queued).
fn s_handle_upsert(cfg: &SCfg, j: usize, cls: u8, stale: bool) {
    let st = sbuild(cfg);
    let mut e = st.g;
    let n = cfg.n;
    let key = j as u8;
    let inner = &*st.b.inner;
    // the map step already happened (do_insert_with_hash), possibly followed by a second update
    let nv = Val { cls, data: kani::any() };
    let (op, _) = st.b.do_insert_with_hash(Arc::new(key), IdH::h(key), nv);
    let (kh, entry, old_w, new_w) = match op {
        WriteOp::Upsert { key_hash, value_entry, old_weight, new_weight } => (key_hash, value_entry, old_weight, new_weight),
        _ => unreachable!(),
    };
    e.present[j] = true; e.v[j] = nv; e.w[j] = new_w; e.la[j] = e.now; e.lm[j] = e.now; e.dirty[j] = true;
    let mut second: Option<WriteOp<u8, Val>> = None;
    if stale {
        // a second insert of the same key, still queued behind the op we apply
        let nv2 = Val { cls: cls ^ 1, data: kani::any() };
        let (op2, _) = st.b.do_insert_with_hash(Arc::new(key), IdH::h(key), nv2);
        e.v[j] = nv2;
        e.w[j] = st.g.weigh(j, nv2);
        second = Some(op2);
    }
    let fc = { inner.frequency_sketch.read().expect("lock poisoned").frequency(IdH::h(key)) as u32 };
    let mut f = [0u32; MAXN];
    let mut i = 0;
    while i < n { f[i] = inner.frequency_sketch.read().expect("lock poisoned").frequency(IdH::h(i as u8)) as u32; i += 1; }
    let mut counters = EvictionCounters::new(inner.entry_count.load(), inner.weighted_size.load());
    {
        let mut deqs = inner.deques.lock().expect("lock poisoned");
        let freq = inner.frequency_sketch.read().expect("lock poisoned");
        inner.handle_upsert(kh, entry, old_w, new_w, &mut deqs, &freq, &mut counters);
    }
    e.dirty[j] = false; // handle_upsert clears the (shared) dirty flag
    if j < n {
        // update of an admitted entry: counters move by (new - old) of THIS op, recency refreshed
        e.ws = e.ws.saturating_sub(old_w as u64).saturating_add(new_w as u64);
        e.touch_ao(j);
        e.touch_wo(j);
    } else {
        let g = st.g;
        let fits = match g.cap { None => true, Some(cap) => g.ws + new_w as u64 <= cap };
        let mut admit = fits;
        let mut nvict = 0usize;
        if !fits {
            let cap = g.cap.unwrap();
            if new_w as u64 > cap {
                admit = false;
            } else {
                let mut pw = 0u64; let mut pf = 0u32; let mut i = 0;
                while i < n { if pw < new_w as u64 { pw += g.w[i] as u64; pf += f[i]; nvict = i + 1; } i += 1; }
                admit = pw >= new_w as u64 && fc > pf;
                if !admit { nvict = 0; }
            }
        }
        let mut i = 0;
        while i < n { if i < nvict { e.unadmit(i); e.present[i] = false; } i += 1; }
        if admit { e.admit_back(j, new_w); } else { e.present[j] = false; }
        if fits { chk!(inner.cache.get(&key).is_some(), "C03: a new key that fits must be admitted"); }
        if !fits && new_w > 0 && g.cap.unwrap() >= new_w as u64 {
            kani::cover!(admit && nvict > 0, "admitted over victims");
            kani::cover!(!admit, "newcomer rejected");
        }
    }
    {
        let deqs = inner.deques.lock().expect("lock poisoned");
        // the counters handle_upsert computed are what sync() stores
        let mut e2 = e;
        if stale && j < n { /* weight in the shared info is already the second update's */ }
        scompare_counters_by_model(inner, &deqs, counters.entry_count, counters.weighted_size, &e2, n + 1);
        let _ = &mut e2;
    }
    if let Some(cap) = st.g.cap {
        if j >= n && st.g.ws <= cap { chk!(counters.weighted_size <= cap, "C04: admitted weight exceeds max_capacity after applying a fresh insert"); }
    }
    std::mem::forget(second);
    std::mem::forget(st);
}

/// like scompare, but the physical-sum check uses the weights the MODEL attributes to admitted
/// entries (with a second update queued, the shared EntryInfo already holds the newer weight, which
/// the counters must not yet include).
fn scompare_counters_by_model(inner: &In, deqs: &Deques<u8>, ec: u64, ws: u64, e: &SG, nkeys: usize) {
    chk!(ec == e.ec, "C10: entry_count after applying the write differs from the model");
    chk!(ws == e.ws, "C10,C03,C04: weighted_size after applying the write differs from the model (each op must account its own old/new weight)");
    // structural part via scompare with counters taken from the physical state
    let mut adm = 0u64; let mut sum = 0u64;
    let mut k = 0;
    while k < MAXN { if k < nkeys && e.present[k] && e.admitted[k] { adm += 1; sum += e.w[k] as u64; } k += 1; }
    let mut e2 = *e;
    e2.ec = adm; e2.ws = sum;
    scompare(inner, deqs, adm, sum, &e2, nkeys);
}

/// apply_reads with one queued read op: Hit(entry j, recorded at time ts <= now) or Miss.
fn s_apply_reads(cfg: &SCfg, j: usize, hit: bool) {
    let st = sbuild(cfg);
    let mut e = st.g;
    let inner = &*st.b.inner;
    let key = j as u8;
    // the read was recorded at ANY earlier clock reading: the entry may have been updated (or read and
    // applied) after the hit was recorded, so ts < last_accessed is a reachable situation
    let ts = any_t();
    kani::assume(le(ts, e.now));
    let op = if hit { ReadOp::Hit(IdH::h(key), TrioArc::clone(st.ent[j].as_ref().unwrap()), inst(ts)) } else { ReadOp::Miss(IdH::h(key)) };
    assert!(st.b.read_op_ch.try_send(op).is_ok());
    {
        let mut deqs = inner.deques.lock().expect("lock poisoned");
        inner.apply_reads(&mut deqs, 1);
    }
    chk!(st.b.read_op_ch.len() == 0, "C09: apply_reads must drain what it was asked to");
    if hit {
        // an applied read may extend the idle deadline, never shorten it (C03) nor drag a fresh entry below the watermark (C07)
        if le(e.la[j], ts) { e.la[j] = ts; }
        e.touch_ao(j);
        kani::cover!(!le(st.g.la[j], ts), "stale hit: recorded before the entry's last access");
    }
    with_state(&st, |inner, d| {
        scompare(inner, d, inner.entry_count.load(), inner.weighted_size.load(), &e, cfg.n + 1);
        sketch_unchanged_or_inc(inner, &e, Some(IdH::h(key)));
    });
    std::mem::forget(st);
}

/// handle_remove (what invalidate queues) for resident j
fn s_handle_remove(cfg: &SCfg, j: usize) {
    let st = sbuild(cfg);
    let mut e = st.g;
    let inner = &*st.b.inner;
    let key = j as u8;
    let kv = st.b.remove_entry(&key);
    chk!(kv.is_some() == (j < cfg.n), "C07: remove_entry result");
    let (_, w, rm) = inner.cache.verif_stats();
    chk!(w == 0 && rm == 1, "C07: invalidate is exactly one atomic map removal");
    chk!(inner.cache.get(&key).is_none(), "C07: invalidated key still in the map");
    let mut counters = EvictionCounters::new(inner.entry_count.load(), inner.weighted_size.load());
    if let Some(kv) = kv {
        let mut deqs = inner.deques.lock().expect("lock poisoned");
        In::handle_remove(&mut deqs, kv.entry, &mut counters);
        e.unadmit(j);
        e.present[j] = false;
    }
    with_state(&st, |inner, d| {
        scompare(inner, d, counters.entry_count, counters.weighted_size, &e, cfg.n + 1);
        sketch_unchanged_or_inc(inner, &e, None);
    });
    std::mem::forget(st);
}

/// evict_lru_entries after a grown update of the MRU entry (all entries clean)
fn s_evict_lru(cfg: &SCfg, grow: u32) {
    let st = sbuild(cfg);
    let n = cfg.n;
    let inner = &*st.b.inner;
    let mut g = st.g;
    if n > 0 && grow > 0 {
        st.ent[n - 1].as_ref().unwrap().entry_info().set_policy_weight(g.w[n - 1] + grow);
        g.w[n - 1] += grow;
        g.ws += grow as u64;
    }
    let mut e = g;
    let mut counters = EvictionCounters::new(g.ec, g.ws);
    let need = match g.cap { Some(c) => g.ws.saturating_sub(c), None => 0 };
    {
        let mut deqs = inner.deques.lock().expect("lock poisoned");
        if need > 0 { inner.evict_lru_entries(&mut deqs, 500, need, &mut counters); }
    }
    let mut freed = 0u64;
    let mut i = 0;
    while i < n { if freed < need { freed += g.w[i] as u64; e.unadmit(i); e.present[i] = false; } i += 1; }
    with_state(&st, |inner, d| {
        scompare(inner, d, counters.entry_count, counters.weighted_size, &e, n + 1);
    });
    if let Some(cap) = g.cap { chk!(counters.weighted_size <= cap || e.ao_n == 0, "C04: excess over max_capacity not removed by maintenance"); }
    std::mem::forget(st);
}

/// evict_expired (ttl / tti / watermark purge) from a state with clean entries
fn s_evict_expired(cfg: &SCfg) {
    let st = sbuild(cfg);
    let inner = &*st.b.inner;
    let g = st.g;
    let mut e = st.g;
    let mut counters = EvictionCounters::new(g.ec, g.ws);
    {
        let mut deqs = inner.deques.lock().expect("lock poisoned");
        inner.evict_expired(&mut deqs, 500, &mut counters);
    }
    let mut i = 0;
    while i < cfg.n { if g.hidden(i) { e.unadmit(i); e.present[i] = false; } i += 1; }
    with_state(&st, |inner, d| {
        scompare(inner, d, counters.entry_count, counters.weighted_size, &e, cfg.n + 1);
    });
    std::mem::forget(st);
}

// ================================================================================================
// Instantiations
// ================================================================================================
const fn sc(n: usize, cap: Option<u64>, weigher: bool, wt: [[u32; MAXN]; 2], ttl: bool, tti: bool, va: bool, tc: usize) -> SCfg {
    SCfg { n, cap, weigher, wt, ttl, tti, va, tc }
}
macro_rules! sh {
    ($name:ident, $body:expr) => {
        #[kani::proof]
        #[kani::unwind(6)]
        #[kani::stub(std::time::Instant::now, now_stub)]
        #[kani::stub(std::hint::spin_loop, spin_stub)]
        #[kani::stub(AtomicInstant::instant, crate::common::concurrent::atomic_time::verif_atomic_time::instant)]
        #[kani::stub(AtomicInstant::is_set, crate::common::concurrent::atomic_time::verif_atomic_time::is_set)]
        #[kani::stub(AtomicInstant::set_instant, crate::common::concurrent::atomic_time::verif_atomic_time::set_instant)]
        #[kani::stub(EntryInfo::access_order_q_node, crate::common::concurrent::entry_info::verif_entry_info::access_order_q_node)]
        #[kani::stub(EntryInfo::set_access_order_q_node, crate::common::concurrent::entry_info::verif_entry_info::set_access_order_q_node)]
        #[kani::stub(EntryInfo::take_access_order_q_node, crate::common::concurrent::entry_info::verif_entry_info::take_access_order_q_node)]
        #[kani::stub(EntryInfo::write_order_q_node, crate::common::concurrent::entry_info::verif_entry_info::write_order_q_node)]
        #[kani::stub(EntryInfo::set_write_order_q_node, crate::common::concurrent::entry_info::verif_entry_info::set_write_order_q_node)]
        #[kani::stub(EntryInfo::take_write_order_q_node, crate::common::concurrent::entry_info::verif_entry_info::take_write_order_q_node)]
        #[kani::stub(EntryInfo::unset_q_nodes, crate::common::concurrent::entry_info::verif_entry_info::unset_q_nodes)]
        #[kani::stub(EntryInfo::is_admitted, crate::common::concurrent::entry_info::verif_entry_info::is_admitted)]
        #[kani::stub(EntryInfo::set_admitted, crate::common::concurrent::entry_info::verif_entry_info::set_admitted)]
        #[kani::stub(EntryInfo::is_dirty, crate::common::concurrent::entry_info::verif_entry_info::is_dirty)]
        #[kani::stub(EntryInfo::set_dirty, crate::common::concurrent::entry_info::verif_entry_info::set_dirty)]
        #[kani::stub(EntryInfo::policy_weight, crate::common::concurrent::entry_info::verif_entry_info::policy_weight)]
        #[kani::stub(EntryInfo::set_policy_weight, crate::common::concurrent::entry_info::verif_entry_info::set_policy_weight)]
        fn $name() { $body }
    };
}
// lookups (0 contains_key, 1 get, 2 iteration filter)
sh!(s_contains0_ttl_deadline, s_lookup(&sc(2, Some(3), false, W1, true, true, false, 2), 0, 0));
sh!(s_contains1_tti_1ns_before, s_lookup(&sc(2, Some(3), false, W1, false, true, false, 3), 1, 0));
sh!(s_contains0_before_watermark, s_lookup(&sc(2, Some(3), false, W1, false, false, true, 4), 0, 0));
sh!(s_contains1_same_reading_as_watermark, s_lookup(&sc(2, Some(3), false, W1, true, false, true, 4), 1, 0));
sh!(s_contains_absent, s_lookup(&sc(1, Some(3), false, W1, false, false, false, 1), 1, 0));
sh!(s_get0_live, s_lookup(&sc(2, Some(3), false, W1, true, true, true, 1), 0, 1));
sh!(s_get0_ttl_deadline, s_lookup(&sc(2, Some(3), false, W1, true, false, false, 2), 0, 1));
sh!(s_get0_tti_deadline, s_lookup(&sc(2, Some(3), false, W1, true, true, false, 3), 0, 1));
sh!(s_get1_same_reading_as_watermark, s_lookup(&sc(2, Some(3), false, W1, false, false, true, 5), 1, 1));
sh!(s_get0_before_watermark, s_lookup(&sc(2, Some(3), false, W1, false, true, true, 5), 0, 1));
sh!(s_contains0_written_before_watermark_read_on_it, s_lookup(&sc(2, Some(3), false, W1, false, false, true, 9), 0, 0));
sh!(s_get0_written_before_watermark_read_on_it, s_lookup(&sc(2, Some(3), false, W1, false, true, true, 9), 0, 1));
sh!(s_iterfilter0_written_before_watermark_read_on_it, s_lookup(&sc(2, Some(3), false, W1, true, false, true, 9), 0, 2));
sh!(s_get_absent, s_lookup(&sc(1, None, false, W1, false, false, false, 1), 1, 1));
sh!(s_iterfilter0_before_watermark_no_expiry, s_lookup(&sc(2, Some(3), false, W1, false, false, true, 4), 0, 2));
sh!(s_iterfilter0_ttl_deadline, s_lookup(&sc(2, Some(3), false, W1, true, true, false, 2), 0, 2));
sh!(s_iterfilter1_live, s_lookup(&sc(2, Some(3), false, W1, true, true, true, 1), 1, 2));
// map step of insert
sh!(s_insert_new, s_insert(&sc(1, Some(3), true, WT_A, true, true, false, 1), 1, 1));
sh!(s_insert_update0, s_insert(&sc(2, Some(9), true, WT_A, true, true, true, 1), 0, 1));
sh!(s_insert_update0_below_watermark_no_expiry, s_insert(&sc(2, Some(9), true, WT_A, false, false, true, 4), 0, 1));
sh!(s_insert_update1_no_expiry, s_insert(&sc(2, Some(9), true, WT_A, false, false, false, 1), 1, 1));
sh!(s_invalidate_all_2, s_invalidate_all(&sc(2, Some(3), false, W1, true, false, false, 5)));
sh!(s_invalidate_all_again, s_invalidate_all(&sc(2, Some(3), false, W1, false, false, true, 4)));
// maintenance
sh!(s_apply_reads_hit0, s_apply_reads(&sc(2, Some(3), false, W1, true, true, false, 1), 0, true));
sh!(s_apply_reads_hit1_watermark, s_apply_reads(&sc(2, Some(3), false, W1, false, false, true, 1), 1, true));
sh!(s_apply_reads_miss, s_apply_reads(&sc(2, Some(3), false, W1, false, true, false, 1), 2, false));

// ================================================================================================
// Light maintenance-step harnesses: targeted assertions (symbolic weights) next to the full-state
// comparisons s_handle_upsert / s_evict_lru / s_evict_expired.
// ================================================================================================
fn ao_ptr(e: &Ent) -> Option<NonNull<DeqNode<KeyHashDate<u8>>>> { e.access_order_q_node().map(|t| t.decompose().0) }

/// handle_upsert, UPDATE branch: an already admitted entry j of n; the op's old/new weights are
/// symbolic and differ from the weight currently in the shared EntryInfo (a later update is queued).
fn l_upsert_update(cfg: &SCfg, j: usize) {
    let st = sbuild(cfg);
    let g = st.g;
    let inner = &*st.b.inner;
    let ent = TrioArc::clone(st.ent[j].as_ref().unwrap());
    let (old_w, new_w, info_w): (u32, u32, u32) = (kani::any(), kani::any(), kani::any());
    ent.entry_info().set_policy_weight(info_w);   // what a second, still queued update stored
    ent.set_dirty(true);
    let ws0: u64 = kani::any();                   // counters as maintenance sees them
    kani::assume(ws0 < (1u64 << 40));
    let mut counters = EvictionCounters::new(g.ec, ws0);
    let kh = KeyHash::new(Arc::clone(st.key[j].as_ref().unwrap()), IdH::h(j as u8));
    {
        let mut deqs = inner.deques.lock().expect("lock poisoned");
        let freq = inner.frequency_sketch.read().expect("lock poisoned");
        inner.handle_upsert(kh, ent, old_w, new_w, &mut deqs, &freq, &mut counters);
    }
    chk!(counters.entry_count == g.ec, "C10,C04,C03,C11: applying an update must not change entry_count (the updated entry was dropped or counted twice: capacity accounting and the entry itself are lost)");
    chk!(counters.weighted_size == ws0.saturating_sub(old_w as u64).saturating_add(new_w as u64),
            "C10,C03,C04: an applied update must move weighted_size by exactly (new - old) of ITS OWN op");
    let e = st.ent[j].as_ref().unwrap();
    chk!(inner.cache.get(&(j as u8)).is_some(), "C03,C01,C11: applying the update of an admitted entry must not drop it from the map (whatever its new weight: the excess is evicted from the LRU end afterwards)");
    chk!(!e.is_dirty() && e.is_admitted(), "C05,C06: applied update leaves the entry clean and admitted");
    chk!(e.last_accessed() == Some(inst(g.la[j])) && e.last_modified() == Some(inst(g.lm[j])),
            "C06,C05: maintenance must not move last_accessed / last_modified (deadlines run from the update, not from its late application)");
    // recency: j is now the MRU node, the others keep their relative order
    {
        let deqs = inner.deques.lock().expect("lock poisoned");
        let (nodes, an, ok) = dq::walk::<KeyHashDate<u8>, { MAXN }>(&deqs.probation);
        chk!(ok && an == cfg.n, "C08: access-order deque damaged by an applied update");
        chk!(nodes[cfg.n - 1] == ao_ptr(e), "C12: an applied update must make the entry the most recently used");
        if cfg.n == 2 { chk!(nodes[0] == ao_ptr(st.ent[1 - j].as_ref().unwrap()), "C12: other resident displaced"); }
        let (wn, wcnt, wok) = dq::walk::<KeyDate<u8>, { MAXN }>(&deqs.write_order);
        chk!(wok && wcnt == if cfg.ttl { cfg.n } else { 0 }, "C08,C05: write-order deque damaged by an applied update");
        if cfg.ttl { chk!(wn[cfg.n - 1] == e.write_order_q_node(), "C05: an applied update must move the entry to the back of the write order"); }
    }
    kani::cover!(old_w != info_w && new_w != info_w, "stale op: recorded weights differ from the shared info");
    kani::cover!(true, "end reached");
    std::mem::forget(st);
}

/// handle_upsert, ADMIT branch with room (unbounded or concrete capacity with room): a pending new
/// key n whose shared EntryInfo already holds a different weight (second insert queued).
fn l_upsert_admit_fits(cfg: &SCfg) {
    let st = sbuild(cfg);
    let g = st.g;
    let inner = &*st.b.inner;
    let n = cfg.n;
    let key = n as u8;
    // bounded cache: the op's weight is concrete (7) so that "fits" is decided during symbolic execution;
    // unbounded cache: fully symbolic. The weight in the shared EntryInfo is symbolic in both.
    let new_w: u32 = if g.cap.is_some() { 7 } else { kani::any() };
    let info_w: u32 = kani::any();
    if let Some(cap) = g.cap { assert!(g.ws + new_w as u64 <= cap); }
    let k = Arc::new(key);
    let info = TrioArc::new(EntryInfo::new(inst(g.now), info_w));
    crate::common::concurrent::entry_info::verif_entry_info::register_w(&info, n, false, true, info_w);
    let ent: Ent = TrioArc::new(ValueEntry::new(Val { cls: 1, data: kani::any() }, info));
    inner.cache.insert(Arc::clone(&k), TrioArc::clone(&ent));
    let mut counters = EvictionCounters::new(g.ec, g.ws);
    {
        let mut deqs = inner.deques.lock().expect("lock poisoned");
        let freq = inner.frequency_sketch.read().expect("lock poisoned");
        inner.handle_upsert(KeyHash::new(Arc::clone(&k), IdH::h(key)), TrioArc::clone(&ent), 0, new_w, &mut deqs, &freq, &mut counters);
    }
    chk!(inner.cache.get(&key).is_some(), "C03: a new key that fits in the remaining capacity must be admitted");
    chk!(ent.is_admitted() && !ent.is_dirty(), "C03,C10: admitted entry must be flagged admitted and clean");
    chk!(counters.entry_count == g.ec + 1, "C10: admission must count the entry once");
    chk!(counters.weighted_size == g.ws.saturating_add(new_w as u64), "C10,C03,C04: admission must add the weight recorded in ITS OWN op");
    let mut i = 0;
    while i < n { chk!(inner.cache.get(&(i as u8)).is_some(), "C03,C12: admission with room must not evict anything"); i += 1; }
    {
        let deqs = inner.deques.lock().expect("lock poisoned");
        let (nodes, an, ok) = dq::walk::<KeyHashDate<u8>, { MAXN }>(&deqs.probation);
        chk!(ok && an == n + 1 && nodes[n] == ao_ptr(&ent), "C12,C08: admitted entry must be appended as most recently used");
        let (wn, wcnt, wok) = dq::walk::<KeyDate<u8>, { MAXN }>(&deqs.write_order);
        chk!(wok && wcnt == if cfg.ttl { n + 1 } else { 0 }, "C05,C08: write-order node iff ttl");
        if cfg.ttl { chk!(wn[n] == ent.write_order_q_node(), "C05: admitted entry appended to the write order"); }
    }
    kani::cover!(new_w != info_w, "stale op");
    kani::cover!(true, "end reached");
    std::mem::forget(ent);
    std::mem::forget(st);
}

/// handle_upsert, ADMISSION with a full unit-weight cache of n residents: TinyLFU decision.
fn l_upsert_admission(cfg: &SCfg) {
    let st = sbuild(cfg);
    let g = st.g;
    let inner = &*st.b.inner;
    let n = cfg.n;
    let key = n as u8;
    let k = Arc::new(key);
    let info = TrioArc::new(EntryInfo::new(inst(g.now), 1));
    crate::common::concurrent::entry_info::verif_entry_info::register_w(&info, n, false, true, 1);
    let ent: Ent = TrioArc::new(ValueEntry::new(Val { cls: 0, data: kani::any() }, info));
    inner.cache.insert(Arc::clone(&k), TrioArc::clone(&ent));
    let (fc, f0) = {
        let f = inner.frequency_sketch.read().expect("lock poisoned");
        (f.frequency(IdH::h(key)) as u32, f.frequency(IdH::h(0)) as u32)
    };
    let mut counters = EvictionCounters::new(g.ec, g.ws);
    {
        let mut deqs = inner.deques.lock().expect("lock poisoned");
        let freq = inner.frequency_sketch.read().expect("lock poisoned");
        inner.handle_upsert(KeyHash::new(Arc::clone(&k), IdH::h(key)), TrioArc::clone(&ent), 0, 1, &mut deqs, &freq, &mut counters);
    }
    let admit = fc > f0; // the shortest sufficient LRU prefix of unit weights is {key 0}
    chk!(inner.cache.get(&key).is_some() == admit, "C13: newcomer admitted iff strictly more popular than the LRU victim");
    chk!(inner.cache.get(&0u8).is_some() == !admit, "C13,C12: the victim is the least recently used resident, and only on admission");
    if n == 2 { chk!(inner.cache.get(&1u8).is_some(), "C12,C13: a more recently used resident must not be touched"); }
    chk!(counters.entry_count == g.ec && counters.weighted_size == g.ws, "C10,C04: admission swaps one unit for one unit; rejection changes nothing");
    chk!(ent.is_admitted() == admit, "C10: admitted flag");
    kani::cover!(admit, "admitted over victims");
    kani::cover!(!admit, "newcomer rejected");
    kani::cover!(true, "end reached");
    std::mem::forget(ent);
    std::mem::forget(st);
}

/// evict_lru_entries with `need` = exactly the weight of the LRU entry: exactly that one goes.
fn l_evict_lru_exact(cfg: &SCfg) {
    let st = sbuild(cfg);
    let g = st.g;
    let inner = &*st.b.inner;
    let need = g.w[0] as u64; // prefix {0} frees exactly the excess
    let mut counters = EvictionCounters::new(g.ec, g.ws);
    {
        let mut deqs = inner.deques.lock().expect("lock poisoned");
        inner.evict_lru_entries(&mut deqs, 500, need, &mut counters);
    }
    chk!(inner.cache.get(&0u8).is_none(), "C12,C04: the least recently used entry must be evicted first");
    chk!(inner.cache.get(&1u8).is_some(), "C12: eviction must stop as soon as the required weight is freed (shortest prefix)");
    chk!(counters.entry_count == g.ec - 1 && counters.weighted_size == g.ws - need, "C10: eviction must give back exactly the evicted entry");
    chk!(!st.ent[0].as_ref().unwrap().is_admitted() && st.ent[0].as_ref().unwrap().access_order_q_node().is_none(), "C08,C11: evicted entry keeps nodes");
    kani::cover!(true, "end reached");
    std::mem::forget(st);
}

/// evict_lru_entries that must remove BOTH residents (need = total weight): LRU first, counters to zero.
fn l_evict_lru_both(cfg: &SCfg) {
    let st = sbuild(cfg);
    let g = st.g;
    let inner = &*st.b.inner;
    let mut counters = EvictionCounters::new(g.ec, g.ws);
    {
        let mut deqs = inner.deques.lock().expect("lock poisoned");
        inner.evict_lru_entries(&mut deqs, 500, g.ws, &mut counters);
        let (_, an, ok) = dq::walk::<KeyHashDate<u8>, { MAXN }>(&deqs.probation);
        let (_, wn, wok) = dq::walk::<KeyDate<u8>, { MAXN }>(&deqs.write_order);
        chk!(ok && wok && an == 0 && wn == 0, "C08,C11,C12: after evicting every resident no deque node may remain");
    }
    chk!(inner.cache.get(&0u8).is_none() && inner.cache.get(&1u8).is_none(), "C04,C12: eviction must go on until the required weight is freed");
    chk!(counters.entry_count == 0 && counters.weighted_size == 0, "C10: eviction must give back exactly what it evicted");
    chk!(!st.ent[0].as_ref().unwrap().is_admitted() && !st.ent[1].as_ref().unwrap().is_admitted(), "C10,C11: evicted entries still flagged admitted");
    kani::cover!(true, "end reached");
    std::mem::forget(st);
}

/// evict_expired on TWO residents in a concrete time class: removed iff hidden, the other stays.
fn l_purge_two(cfg: &SCfg) {
    let st = sbuild(cfg);
    let g = st.g;
    let inner = &*st.b.inner;
    let mut counters = EvictionCounters::new(g.ec, g.ws);
    {
        let mut deqs = inner.deques.lock().expect("lock poisoned");
        inner.evict_expired(&mut deqs, 500, &mut counters);
    }
    let (h0, h1) = (g.hidden(0), g.hidden(1));
    chk!(inner.cache.get(&0u8).is_none() == h0 && inner.cache.get(&1u8).is_none() == h1, "C03,C05,C06,C07: maintenance removes an entry iff it is expired or invalidated (two residents)");
    let want_ec = (!h0) as u64 + (!h1) as u64;
    let want_ws = (if h0 { 0 } else { g.w[0] as u64 }) + (if h1 { 0 } else { g.w[1] as u64 });
    chk!(counters.entry_count == want_ec && counters.weighted_size == want_ws, "C10: purge must give back count and weight of exactly what it removed (two residents)");
    {
        let deqs = inner.deques.lock().expect("lock poisoned");
        let (_, an, ok) = dq::walk::<KeyHashDate<u8>, { MAXN }>(&deqs.probation);
        let (_, wn, wok) = dq::walk::<KeyDate<u8>, { MAXN }>(&deqs.write_order);
        chk!(ok && wok && an as u64 == want_ec && wn as u64 == if cfg.ttl { want_ec } else { 0 }, "C08,C11: purged entries' nodes must be unlinked from both deques, the others stay");
    }
    kani::cover!(h0 != h1, "exactly one of two expired");
    kani::cover!(true, "end reached");
    std::mem::forget(st);
}

/// evict_expired on ONE resident: removed iff hidden (ttl / tti / watermark), counters follow.
fn l_purge_one(cfg: &SCfg) {
    let st = sbuild(cfg);
    let g = st.g;
    let inner = &*st.b.inner;
    let mut counters = EvictionCounters::new(g.ec, g.ws);
    {
        let mut deqs = inner.deques.lock().expect("lock poisoned");
        inner.evict_expired(&mut deqs, 500, &mut counters);
    }
    let hid = g.hidden(0);
    chk!(inner.cache.get(&0u8).is_none() == hid, "C03,C05,C06,C07: maintenance removes an entry iff it is expired or invalidated");
    chk!(counters.entry_count == if hid { 0 } else { 1 } && counters.weighted_size == if hid { 0 } else { g.w[0] as u64 }, "C10: purge must give back count and weight of exactly what it removed");
    chk!(st.ent[0].as_ref().unwrap().is_admitted() == !hid, "C10,C08: admitted flag after purge");
    kani::cover!(true, "end reached");
    std::mem::forget(st);
}

/// apply_reads with ONE queued Hit for resident j recorded at an arbitrary earlier reading `ts`
/// (possibly before the entry's last update: ts < last_accessed): the read may extend the idle
/// deadline, never shorten it, and the entry becomes most recently used.
fn l_apply_reads_hit(cfg: &SCfg, j: usize) {
    let st = sbuild(cfg);
    let g = st.g;
    let inner = &*st.b.inner;
    let ts = any_t();
    kani::assume(le(ts, g.now));
    let op = ReadOp::Hit(IdH::h(j as u8), TrioArc::clone(st.ent[j].as_ref().unwrap()), inst(ts));
    assert!(st.b.read_op_ch.try_send(op).is_ok());
    {
        let mut deqs = inner.deques.lock().expect("lock poisoned");
        inner.apply_reads(&mut deqs, 1);
    }
    let e = st.ent[j].as_ref().unwrap();
    let want = if le(g.la[j], ts) { ts } else { g.la[j] };
    chk!(e.last_accessed() == Some(inst(want)), "C03,C07,C06: an applied read must set last_accessed to max(old, recorded reading): never backwards (a stale hit would shorten the idle deadline of an updated entry or drag a re-inserted key below the invalidate_all watermark)");
    chk!(e.last_modified() == Some(inst(g.lm[j])), "C05: apply_reads must not touch last_modified");
    if cfg.n == 2 {
        let o = st.ent[1 - j].as_ref().unwrap();
        chk!(o.last_accessed() == Some(inst(g.la[1 - j])), "C06: a read of one key must not touch another key's idle timer");
    }
    {
        let deqs = inner.deques.lock().expect("lock poisoned");
        let (nodes, an, ok) = dq::walk::<KeyHashDate<u8>, { MAXN }>(&deqs.probation);
        chk!(ok && an == cfg.n && nodes[cfg.n - 1] == ao_ptr(e), "C12: an applied hit makes the entry most recently used");
    }
    chk!(st.b.read_op_ch.len() == 0 && inner.entry_count.load() == g.ec && inner.weighted_size.load() == g.ws, "C10,C09: apply_reads drains its op and leaves the counters alone");
    kani::cover!(!le(g.la[j], ts), "stale hit (recorded before the entry's last access)");
    kani::cover!(le(g.la[j], ts), "fresh hit");
    std::mem::forget(st);
}

/// handle_remove of resident j (n = 1 or 2): counters, flags, nodes.
fn l_remove(cfg: &SCfg, j: usize) {
    let st = sbuild(cfg);
    let g = st.g;
    let inner = &*st.b.inner;
    let key = j as u8;
    let kv = st.b.remove_entry(&key).unwrap();
    let (_, w, rm) = inner.cache.verif_stats();
    chk!(w == 0 && rm == 1 && inner.cache.get(&key).is_none(), "C07: invalidate is one atomic map removal and the key is gone at once");
    let mut counters = EvictionCounters::new(g.ec, g.ws);
    {
        let mut deqs = inner.deques.lock().expect("lock poisoned");
        In::handle_remove(&mut deqs, kv.entry, &mut counters);
        let (_, an, ok) = dq::walk::<KeyHashDate<u8>, { MAXN }>(&deqs.probation);
        chk!(ok && an == cfg.n - 1, "C08,C11: removed entry's access-order node must be unlinked");
        let (_, wn, wok) = dq::walk::<KeyDate<u8>, { MAXN }>(&deqs.write_order);
        chk!(wok && wn == if cfg.ttl { cfg.n - 1 } else { 0 }, "C08,C11: removed entry's write-order node must be unlinked");
    }
    chk!(counters.entry_count == g.ec - 1 && counters.weighted_size == g.ws - g.w[j] as u64, "C10: removal must give back exactly the removed entry");
    let e = st.ent[j].as_ref().unwrap();
    chk!(!e.is_admitted() && e.access_order_q_node().is_none() && e.write_order_q_node().is_none(), "C08: removed entry keeps node pointers");
    if cfg.n == 2 { chk!(inner.cache.get(&((1 - j) as u8)).is_some(), "C07: invalidate(k) must not affect other keys"); }
    kani::cover!(true, "end reached");
    std::mem::forget(st);
}

// NOT instantiated: the TinyLFU admission path of handle_upsert (l_upsert_admission_*, s_upsert_new_full_unit / _toobig /
// _two_victims), evict_lru_entries with two victims and evict_expired with removal at n = 2 exhaust 40 GB
// (SmallVec spill paths + Arc drop glue on merged heaps); see DESIGN.md 12.
// no verdict within 60 min / 40 GB (./check ALL): not instantiated
// sh!(l_upsert_admission_n1, l_upsert_admission(&sc(1, Some(1), false, W1, false, false, false, 1)));
// no verdict within 60 min / 40 GB (./check ALL): not instantiated
// sh!(l_upsert_admission_n2, l_upsert_admission(&sc(2, Some(2), false, W1, true, false, false, 1)));
sh!(l_upsert_admit_fits_unbounded, l_upsert_admit_fits(&sc(1, None, true, WT_A, true, false, false, 1)));
sh!(l_upsert_admit_fits_cap, l_upsert_admit_fits(&sc(1, Some(1000), true, WT_A, false, false, false, 1)));
sh!(l_evict_lru_exact_n2, l_evict_lru_exact(&sc(2, Some(5), true, WT_A, false, false, false, 1)));
sh!(l_evict_lru_both_n2, l_evict_lru_both(&sc(2, Some(5), true, WT_A, false, false, false, 1)));
sh!(l_evict_lru_both_n2_ttl, l_evict_lru_both(&sc(2, Some(5), true, WT_A, true, false, false, 1)));
sh!(l_purge_two_ttl_one_expired, l_purge_two(&sc(2, Some(9), true, WT_A, true, false, false, 2)));
sh!(l_purge_two_tti_one_expired, l_purge_two(&sc(2, Some(9), true, WT_A, true, true, false, 3)));
sh!(l_purge_two_watermark_one_hidden, l_purge_two(&sc(2, Some(9), true, WT_A, false, false, true, 4)));
sh!(l_purge_two_both_hidden, l_purge_two(&sc(2, Some(9), true, WT_A, true, false, true, 7)));
sh!(l_purge_one_ttl_deadline, l_purge_one(&sc(1, Some(9), true, WT_A, true, false, false, 2)));
sh!(l_purge_one_tti_live, l_purge_one(&sc(1, Some(9), true, WT_A, false, true, false, 1)));
sh!(l_purge_one_watermark, l_purge_one(&sc(1, Some(9), true, WT_A, false, false, true, 4)));
// full-state comparisons of the maintenance steps
sh!(s_upsert_update0, s_handle_upsert(&sc(2, Some(20), true, WT_A, true, true, false, 1), 0, 1, false));
sh!(s_upsert_update1_stale, s_handle_upsert(&sc(2, Some(20), true, WT_A, true, false, false, 1), 1, 1, true));
sh!(s_upsert_new_fits, s_handle_upsert(&sc(1, Some(20), true, WT_A, true, true, false, 1), 1, 0, false));
sh!(s_upsert_new_fits_stale, s_handle_upsert(&sc(1, Some(20), true, WT_A, false, false, false, 1), 1, 0, true));
sh!(s_remove0, s_handle_remove(&sc(2, Some(9), true, WT_A, true, true, false, 1), 0));
sh!(s_remove_absent, s_handle_remove(&sc(1, Some(9), true, WT_A, false, false, false, 1), 1));
sh!(s_evict_lru_exact, s_evict_lru(&sc(2, Some(8), true, WT_A, true, false, false, 1), 3));
sh!(s_evict_lru_within, s_evict_lru(&sc(2, Some(8), true, WT_A, false, false, false, 1), 0));
sh!(s_purge_nothing, s_evict_expired(&sc(2, Some(9), true, WT_A, true, true, true, 1)));
sh!(l_upsert_update_n1, l_upsert_update(&sc(1, Some(20), true, WT_A, false, true, false, 1), 0));
sh!(l_upsert_update_n2_lru_ttl, l_upsert_update(&sc(2, Some(20), true, WT_A, true, true, false, 1), 0));
sh!(l_apply_reads_hit_n1, l_apply_reads_hit(&sc(1, Some(3), false, W1, false, true, true, 1), 0));
sh!(l_apply_reads_hit_n2_lru, l_apply_reads_hit(&sc(2, Some(3), false, W1, true, true, false, 1), 0));
sh!(l_remove_n1, l_remove(&sc(1, Some(9), true, WT_A, true, false, false, 1), 0));
sh!(l_remove_n2_mru, l_remove(&sc(2, Some(9), true, WT_A, false, true, false, 1), 1));

#[kani::proof]
#[kani::unwind(6)]
#[kani::stub(std::time::Instant::now, now_stub)]
fn sync_twin_must_fail() {
    let st = sbuild(&sc(2, Some(3), false, W1, true, true, true, 1));
    let got = st.b.contains_key(&0u8);
    assert!(got && !got, "VACUITY-TWIN: reached the end of the sync harness");
    std::mem::forget(st);
}

// ================================================================================================
// EvictionCounters arithmetic: saturating for every value (weights of a shared EntryInfo may have
// been raised by a still queued update above what was ever added to the total).
// ================================================================================================
#[kani::proof]
fn s_eviction_counters_never_overflow() {
    let (ec, ws): (u64, u64) = (kani::any(), kani::any());
    let w: u32 = kani::any();
    let n: u64 = kani::any();
    kani::assume(n <= 1 && ec >= n && ec < u64::MAX);
    let mut c = EvictionCounters::new(ec, ws);
    c.saturating_sub(n, w);
    chk!(c.entry_count == ec - n && c.weighted_size == ws.saturating_sub(w as u64), "C10,C08: EvictionCounters::saturating_sub must saturate, never wrap or panic");
    let mut c = EvictionCounters::new(ec, ws);
    c.saturating_add(n, w);
    chk!(c.entry_count == ec + n && c.weighted_size == ws.saturating_add(w as u64), "C10,C08: EvictionCounters::saturating_add must saturate, never wrap or panic");
    kani::cover!(ws < w as u64, "weight larger than the total");
}

/// harness constructor used by sync::cache's child module
pub(crate) fn mk_state(cfg: &SCfg) -> SSt { sbuild(cfg) }
pub(crate) const fn mk_cfg(n: usize, cap: Option<u64>, ttl: bool, tti: bool, va: bool, tc: usize) -> SCfg {
    SCfg { n, cap, weigher: false, wt: W1, ttl, tti, va, tc }
}
/// (a pending, not yet admitted entry for key `k`: what insert leaves before maintenance)
pub(crate) fn add_pending(st: &SSt, k: u8) -> Ent {
    let (op, _) = st.b.do_insert_with_hash(Arc::new(k), IdH::h(k), Val { cls: 0, data: k });
    match op {
        WriteOp::Upsert { value_entry, .. } => { let e = TrioArc::clone(&value_entry); assert!(st.b.write_op_ch.try_send(WriteOp::Upsert { key_hash: KeyHash::new(Arc::new(k), IdH::h(k)), value_entry, old_weight: 0, new_weight: 1 }).is_ok()); e }
        _ => unreachable!(),
    }
}
pub(crate) fn set_now(t: (u64, u32)) {
    unsafe {
        NOW = t;
        #[allow(static_mut_refs)]
        if let Some(m) = MOCK.as_ref() { crate::common::time::clock::verif_clock::set(m, instant_at(t.0, t.1)); }
    }
}
pub(crate) fn tc_now(tc: usize) -> (u64, u32) { STCS[tc].now }
pub(crate) fn hidden_at(st: &SSt, i: usize) -> bool { st.g.hidden(i) }
pub(crate) fn base_of(st: SSt) -> Bc { let SSt { b, g: _, ent, key } = st; std::mem::forget(ent); std::mem::forget(key); b }
impl In {
    pub(crate) fn verif_read_len(&self) -> usize { self.read_op_ch.len() }
    /// (frequency sketch enabled flag, sketch still unallocated)
    pub(crate) fn verif_sketch_state(&self) -> (bool, bool) {
        (self.frequency_sketch_enabled.load(Ordering::Acquire), sk::is_empty(&self.frequency_sketch.read().expect("lock poisoned")))
    }
    pub(crate) fn verif_in_map(&self, k: u8) -> bool { self.cache.get(&k).is_some() }
    pub(crate) fn verif_recv_write(&self) -> Option<WriteOp<u8, Val>> { self.write_op_ch.try_recv().ok() }
}

// ================================================================================================
// Sync admission DECISION for all weights: Inner::admit is read-only (the surrounding handle_upsert
// admission path with its victim removal is the part that stays out of reach).
// ================================================================================================
fn s_admit_lemma(n: usize) {
    let st = sbuild(&sc(n, Some(1000), false, W1, false, false, false, 1));
    let inner = &*st.b.inner;
    let wsym: [u32; MAXN] = kani::any();
    let mut i = 0;
    while i < n { st.ent[i].as_ref().unwrap().entry_info().set_policy_weight(wsym[i]); i += 1; }
    let cw: u32 = kani::any();
    let ch: u8 = kani::any();
    kani::assume((ch as usize) < MAXN);
    let deqs = inner.deques.lock().expect("lock poisoned");
    let freq = inner.frequency_sketch.read().expect("lock poisoned");
    let mut cand = EntrySizeAndFrequency::new(cw);
    cand.add_frequency(&freq, IdH::h(ch));
    let fc = freq.frequency(IdH::h(ch)) as u32;
    let mut f = [0u32; MAXN];
    let mut i = 0;
    while i < n { f[i] = freq.frequency(IdH::h(i as u8)) as u32; i += 1; }
    let r = In::admit(&cand, &inner.cache, &deqs, &freq);
    let mut pw = 0u64; let mut pf = 0u32; let mut nv = 0usize;
    let mut i = 0;
    while i < n { if pw < cw as u64 { pw += wsym[i] as u64; pf += f[i]; nv = i + 1; } i += 1; }
    let want = pw >= cw as u64 && fc > pf;
    let (nodes, _, _) = dq::walk::<KeyHashDate<u8>, { MAXN }>(&deqs.probation);
    match r {
        AdmissionResult::Admitted { victim_nodes, skipped_nodes } => {
            chk!(want, "C13: sync admit() admitted although no covering LRU prefix exists or the candidate is not strictly more popular");
            chk!(victim_nodes.len() == nv && skipped_nodes.is_empty(), "C12,C13: sync victims are not the shortest sufficient LRU prefix");
            let mut i = 0;
            while i < MAXN { if i < nv { chk!(Some(victim_nodes[i]) == nodes[i], "C12: sync victims are not the least recently used residents in LRU order"); } i += 1; }
            std::mem::forget(victim_nodes); std::mem::forget(skipped_nodes);
        }
        AdmissionResult::Rejected { skipped_nodes } => {
            chk!(!want, "C13: sync admit() rejected although the covering LRU prefix is strictly less popular");
            chk!(skipped_nodes.is_empty(), "C13: nothing to skip when every node has its map entry");
            std::mem::forget(skipped_nodes);
        }
    }
    kani::cover!(want && nv == n && n > 0, "admitted over all residents");
    kani::cover!(!want && pw >= cw as u64, "rejected on popularity");
    kani::cover!(!want && pw < cw as u64, "rejected: no covering prefix");
    drop(freq); drop(deqs);
    std::mem::forget(st);
}
sh!(s_admit_lemma_n1, s_admit_lemma(1));
sh!(s_admit_lemma_n2, s_admit_lemma(2));

// ================================================================================================
// Several queued operations: apply_writes in queue order; one whole Inner::sync round
// ================================================================================================
/// queue = [Upsert(update of key 0: 3 -> 7), Remove(key 0)] (insert(k, v'); invalidate(k) without sync)
fn l_apply_writes_update_then_remove() {
    let st = sbuild(&sc(1, Some(20), true, WT_A, true, false, false, 1));
    let g = st.g;
    let inner = &*st.b.inner;
    let (op, _) = st.b.do_insert_with_hash(Arc::new(0u8), IdH::h(0), Val { cls: 1, data: kani::any() });
    assert!(st.b.write_op_ch.try_send(op).is_ok());
    let kv = st.b.remove_entry(&0u8).unwrap();
    assert!(st.b.write_op_ch.try_send(WriteOp::Remove(kv)).is_ok());
    let mut counters = EvictionCounters::new(g.ec, g.ws);
    {
        let mut deqs = inner.deques.lock().expect("lock poisoned");
        inner.apply_writes(&mut deqs, 2, &mut counters);
        let (_, an, ok) = dq::walk::<KeyHashDate<u8>, { MAXN }>(&deqs.probation);
        let (_, wn, wok) = dq::walk::<KeyDate<u8>, { MAXN }>(&deqs.write_order);
        chk!(ok && wok && an == 0 && wn == 0, "C08,C11,C07: after applying update + removal no deque node of the key may remain");
    }
    chk!(st.b.write_op_ch.len() == 0, "C09: apply_writes must drain what it was asked to");
    chk!(counters.entry_count == 0 && counters.weighted_size == 0, "C10,C07: update then invalidate of the only entry must leave the counters at zero");
    chk!(inner.cache.get(&0u8).is_none(), "C07: invalidated key must stay gone after maintenance");
    chk!(!st.ent[0].as_ref().unwrap().is_admitted(), "C10: removed entry still flagged admitted");
    kani::cover!(true, "end reached");
    std::mem::forget(st);
}
// not instantiated: out of memory (> 40 GB) -- with two queued ops the admission path of handle_upsert stays live
sh!(l_apply_writes_update_then_remove_q2, l_apply_writes_update_then_remove());
#[allow(dead_code)] fn _keep_l_apply_writes() { l_apply_writes_update_then_remove() }

/// one whole Inner::sync: a queued Hit of resident 0 and a queued insert of a new key that fits
fn l_sync_round(ttl: bool, tti: bool, late: bool) {
    let st = sbuild(&sc(1, None, true, WT_A, ttl, tti, false, 1));
    let g = st.g;
    let inner = &*st.b.inner;
    let ts = any_t();
    kani::assume(le(ts, g.now));
    assert!(st.b.read_op_ch.try_send(ReadOp::Hit(IdH::h(0), TrioArc::clone(st.ent[0].as_ref().unwrap()), inst(ts))).is_ok());
    let nv = Val { cls: 1, data: kani::any() };
    let (op, _) = st.b.do_insert_with_hash(Arc::new(1u8), IdH::h(1), nv);
    assert!(st.b.write_op_ch.try_send(op).is_ok());
    // (late: the write stays queued while the clock advances; deadlines still run from the insert)
    if late { set_now((g.now.0 + 7, 3)); }
    inner.sync(MAX_SYNC_REPEATS_PUB);
    chk!(st.b.read_op_ch.len() == 0 && st.b.write_op_ch.len() == 0, "C09: sync must drain both queues");
    let w1 = g.weigh(1, nv);
    chk!(inner.entry_count.load() == 2 && inner.weighted_size.load() == g.ws + w1 as u64, "C10,C03: after sync the counters equal what is physically held");
    let e1 = inner.cache.get(&1u8);
    chk!(e1.is_some(), "C03: a new key in an unbounded cache must survive maintenance");
    let e1 = TrioArc::clone(e1.unwrap().value());
    chk!(e1.value == nv && e1.is_admitted() && !e1.is_dirty(), "C01,C10: the inserted entry is admitted with its value");
    chk!(e1.last_modified() == Some(inst(g.now)) && e1.last_accessed() == Some(inst(g.now)), "C05,C06: deadlines of the new entry run from the insert");
    let e0 = st.ent[0].as_ref().unwrap();
    chk!(e0.last_accessed() == Some(inst(if le(g.la[0], ts) { ts } else { g.la[0] })), "C06,C03: the applied read moves last_accessed forward only");
    {
        let deqs = inner.deques.lock().expect("lock poisoned");
        let (nodes, an, ok) = dq::walk::<KeyHashDate<u8>, { MAXN }>(&deqs.probation);
        chk!(ok && an == 2 && nodes[0] == ao_ptr(e0) && nodes[1] == ao_ptr(&e1), "C12: recency order after sync = order in which maintenance applied reads then writes");
    }
    kani::cover!(true, "end reached");
    std::mem::forget(e1);
    std::mem::forget(st);
}
sh!(l_sync_round_plain, l_sync_round(false, false, false));
sh!(l_sync_round_plain_late, l_sync_round(false, false, true));
// not instantiated: no verdict in 40 min once evict_expired runs after an admission
// sh!(l_sync_round_expiry, l_sync_round(true, true, false));

/// Inner::sync with both queues EMPTY on a cache that is still over capacity (an earlier run hit its
/// eviction batch limit, or a grown update was applied by the previous run): every maintenance run
/// must go on evicting; "nothing queued" is not "nothing to do".
fn l_sync_idle_over_capacity() {
    let st = sbuild(&sc(2, Some(5), true, WT_A, false, false, false, 1));   // weights 3 + 5 = 8 > 5
    let g = st.g;
    let inner = &*st.b.inner;
    inner.sync(MAX_SYNC_REPEATS_PUB);
    chk!(inner.cache.get(&0u8).is_none(), "C04,C12: a maintenance run on a cache above max_capacity must evict from the LRU end even when no operation is queued");
    chk!(inner.cache.get(&1u8).is_some(), "C12,C03: only as many as needed");
    chk!(inner.entry_count.load() == 1 && inner.weighted_size.load() == g.ws - g.w[0] as u64, "C10,C04: counters after the eviction");
    kani::cover!(true, "end reached");
    std::mem::forget(st);
}
sh!(l_sync_idle_over_capacity_evicts, l_sync_idle_over_capacity());

/// C09: maintenance over capacity when the only node left belongs to an entry that already left the
/// map (invalidate queued its Remove, not yet applied): evict_lru_entries must give up after
/// `batch_size` rounds (here 2) instead of rotating the deque for ever. The unwinding assertion of
/// its loop is the termination check (registered with unwind_tag = C09).
fn l_evict_lru_terminates() {
    let st = sbuild(&sc(1, Some(1), true, WT_A, false, false, false, 1));   // weight 3 > capacity 1
    let g = st.g;
    let inner = &*st.b.inner;
    let kv = st.b.remove_entry(&0u8).unwrap();                           // invalidate(0): Remove not yet applied
    let mut counters = EvictionCounters::new(g.ec, g.ws);
    kani::cover!(true, "inputs chosen");
    {
        let mut deqs = inner.deques.lock().expect("lock poisoned");
        inner.evict_lru_entries(&mut deqs, 2, g.ws - 1, &mut counters);
        let (_, an, ok) = dq::walk::<KeyHashDate<u8>, { MAXN }>(&deqs.probation);
        chk!(ok && an == 1, "C08: the node of a not-yet-removed entry must stay linked (its Remove op still points to it)");
    }
    chk!(counters.entry_count == g.ec && counters.weighted_size == g.ws, "C10: nothing evicted, nothing given back");
    kani::cover!(true, "end reached");
    std::mem::forget(kv);
    std::mem::forget(st);
}
sh!(l_evict_lru_terminates_on_unevictable_node, l_evict_lru_terminates());

// ================================================================================================
// Admission path of handle_upsert with a CONCRETE popularity sketch (the decision itself is decided
// for all sketch contents / weights by s_admit_lemma_*; here the EFFECT of each decision: victims
// removed from map and deques, counters, rejected candidate removed, skipped nodes rotated).
// ================================================================================================
fn l_upsert_admission_c(cfg: &SCfg, mode: u8, hot: u8) {
    sketch_mode(mode, hot);
    l_upsert_admission(cfg);
}
sh!(l_upsert_admission_n1_hot, l_upsert_admission_c(&sc(1, Some(1), false, W1, false, false, false, 1), 2, 1));
sh!(l_upsert_admission_n1_cold, l_upsert_admission_c(&sc(1, Some(1), false, W1, true, false, false, 1), 1, 0));
sh!(l_upsert_admission_n2_hot, l_upsert_admission_c(&sc(2, Some(2), false, W1, true, false, false, 1), 2, 2));
sh!(l_upsert_admission_n2_victim_hot, l_upsert_admission_c(&sc(2, Some(2), false, W1, false, false, false, 1), 2, 0));

// ================================================================================================
// Un-synced burst + one maintenance run (stale queued operations).
// A burst is a concrete sequence of map steps (insert = do_insert_with_hash + enqueue, invalidate =
// remove_entry + enqueue) issued WITHOUT maintenance in between, so that later operations find the
// effects of earlier ones in the map while the earlier write ops are still queued; then the real
// Inner::sync drains the queues. Shapes (which keys, which order) are enumerated outside the solver,
// values are symbolic, the sketch is concrete (see above). Afterwards the cache must be QUIESCENT:
// every map entry admitted, counted and linked exactly once; no node without map entry; counters ==
// physical contents; and every key holds nothing or the value of its LATEST insert, nothing if it
// was invalidated after that insert.
// ================================================================================================
#[derive(Clone, Copy)]
pub(crate) enum BOp { Ins(u8, u8), Inv(u8), Get(u8) }

/// quiescent-state invariant of the concurrent cache (both queues drained)
pub(crate) fn squiescent(inner: &In, nkeys: usize) -> (u64, u64) {
    let deqs = inner.deques.lock().expect("lock poisoned");
    let (ec, ws) = (inner.entry_count.load(), inner.weighted_size.load());
    let mut cnt = 0u64;
    let mut sum = 0u64;
    let mut pao: [Option<NonNull<DeqNode<KeyHashDate<u8>>>>; MAXN] = [None; MAXN];
    let mut k = 0;
    while k < MAXN {
        if k < nkeys {
            let key = k as u8;
            if let Some(r) = inner.cache.get(&key) {
                let ent: &Ent = r.value();
                cnt += 1;
                sum += ent.policy_weight() as u64;
                chk!(ent.is_admitted(), "C10,C03,C04: after maintenance drained the queues a map entry is not admitted (never counted, never evictable, never expired by maintenance)");
                chk!(!ent.is_dirty(), "C05,C06: after maintenance drained the queues a map entry is still flagged dirty (skipped by expiry for ever)");
                match ent.access_order_q_node() {
                    Some(t) => {
                        let (p, _) = t.decompose();
                        let el = unsafe { &p.as_ref().element };
                        chk!(**el.key() == key, "C08,C12: entry's access-order node carries another key");
                        pao[k] = Some(p);
                    }
                    None => chk!(false, "C08,C10: admitted entry without access-order node"),
                }
            }
        }
        k += 1;
    }
    let (nodes, an, ok) = dq::walk::<KeyHashDate<u8>, { MAXN }>(&deqs.probation);
    chk!(ok, "C08: access-order deque is not a well-formed list");
    chk!(an as u64 == cnt, "C10,C11,C08,C03: access-order nodes != entries in the map after the queues were drained (ghost node of a key that left the map pins its key and is counted for ever, or an entry lost its node)");
    let mut i = 0;
    while i < MAXN {
        if i < an {
            let mut found = false;
            let mut k = 0;
            while k < MAXN { if pao[k].is_some() && pao[k] == nodes[i] { found = true; } k += 1; }
            chk!(found, "C08,C11: a deque node belongs to no map entry");
        }
        i += 1;
    }
    let (_, wn, wok) = dq::walk::<KeyDate<u8>, { MAXN }>(&deqs.write_order);
    chk!(wok, "C08: write-order deque is not a well-formed list");
    chk!(wn as u64 == if inner.is_write_order_queue_enabled() { cnt } else { 0 }, "C10,C11,C05: write-order nodes != entries in the map (iff ttl) after the queues were drained");
    chk!(ec == cnt, "C10,C03: entry_count != number of entries physically held after maintenance");
    chk!(ws == sum, "C10,C03,C04: weighted_size != sum of the weights physically held after maintenance");
    (cnt, sum)
}

fn l_burst(cfg: &SCfg, mode: u8, hot: u8, ops: &[BOp]) {
    sketch_mode(mode, hot);
    let st = sbuild(cfg);
    let g = st.g;
    let inner = &*st.b.inner;
    let n = cfg.n;
    // model: latest inserted value per key (None = absent or invalidated after its latest insert)
    let mut latest: [Option<Val>; MAXN] = [None; MAXN];
    let mut i = 0;
    while i < n { latest[i] = Some(g.v[i]); i += 1; }
    let mut live_w = g.ws;       // total weight of the model's live entries; maximum over the burst
    let mut max_live_w = g.ws;
    // the write queue, kept by the harness in issue order (the FIFO of the real channel)
    let mut q: [Option<WriteOp<u8, Val>>; QCAP] = [None, None, None, None];
    let mut qn = 0usize;
    for op in ops {
        match *op {
            BOp::Ins(k, cls) => {
                let v = Val { cls, data: kani::any() };
                if let Some(o) = latest[k as usize] { live_w -= g.weigh(k as usize, o) as u64; }
                live_w += g.weigh(k as usize, v) as u64;
                if live_w > max_live_w { max_live_w = live_w; }
                latest[k as usize] = Some(v);
                let fresh = inner.cache.get(&k).is_none();
                let (wop, _) = st.b.do_insert_with_hash(Arc::new(k), IdH::h(k), v);
                if fresh {
                    // (shadow flags for the new EntryInfo: keeps is_admitted / is_dirty / weight constant for CBMC)
                    if let WriteOp::Upsert { ref value_entry, .. } = wop {
                        crate::common::concurrent::entry_info::verif_entry_info::register_w(value_entry.entry_info(), k as usize, false, false, g.weigh(k as usize, v));
                    }
                }
                q[qn] = Some(wop); qn += 1;
            }
            BOp::Inv(k) => {
                if let Some(o) = latest[k as usize] { live_w -= g.weigh(k as usize, o) as u64; }
                latest[k as usize] = None;
                if let Some(kv) = st.b.remove_entry(&k) { q[qn] = Some(WriteOp::Remove(kv)); qn += 1; }
            }
            BOp::Get(k) => {
                let got = st.b.get_with_hash(&k, IdH::h(k));
                chk!(got == latest[k as usize], "C01,C03,C07: get during an un-synced burst must return the latest insert of the key (nothing after an invalidate)");
            }
        }
    }
    kani::cover!(true, "inputs chosen");
    // one maintenance run, step by step as Inner::sync / apply_writes perform it (queue order, then the
    // size eviction); the dispatch loops themselves are decided by l_sync_round_plain
    let mut counters = EvictionCounters::new(g.ec, g.ws);
    {
        let mut deqs = inner.deques.lock().expect("lock poisoned");
        let freq = inner.frequency_sketch.read().expect("lock poisoned");
        let mut i = 0;
        while i < QCAP {
            match q[i].take() {
                Some(WriteOp::Upsert { key_hash, value_entry, old_weight, new_weight }) =>
                    inner.handle_upsert(key_hash, value_entry, old_weight, new_weight, &mut deqs, &freq, &mut counters),
                Some(WriteOp::Remove(kv)) => In::handle_remove(&mut deqs, kv.entry, &mut counters),
                None => {}
            }
            i += 1;
        }
        let w = inner.weights_to_evict(&counters);
        if w > 0 { inner.evict_lru_entries(&mut deqs, 500, w, &mut counters); }
    }
    inner.entry_count.store(counters.entry_count);
    inner.weighted_size.store(counters.weighted_size);
    let (_cnt, sum) = squiescent(inner, MAXN);
    let mut k = 0;
    while k < MAXN {
        let key = k as u8;
        match inner.cache.get(&key) {
            Some(r) => {
                chk!(latest[k].is_some(), "C07,C01: a key invalidated after its latest insert is back in the map after maintenance");
                chk!(Some(r.value().value) == latest[k], "C01: after maintenance the map holds a value other than the key's latest insert");
                chk!(r.value().policy_weight() == g.weigh(k, latest[k].unwrap()), "C10,C04: entry weight is not the weigher's weight of the latest value");
            }
            None => {
                // a loss is legitimate only if the live weight ever exceeded the capacity (rejection / eviction)
                let never_over = match g.cap { None => true, Some(c) => max_live_w <= c };
                chk!(!(latest[k].is_some() && never_over), "C03: a live entry was dropped although the live weight never exceeded max_capacity");
            }
        }
        k += 1;
    }
    if let Some(c) = g.cap { chk!(sum <= c, "C04: resident weight above max_capacity after a whole maintenance run"); }
    kani::cover!(true, "end reached");
    std::mem::forget(st);
}
use BOp::*;
sh!(l_burst_ins1_cap1_cold, l_burst(&sc(1, Some(1), false, W1, false, false, false, 1), 1, 0, &[Ins(1, 0)]));
sh!(l_burst_ins1_room, l_burst(&sc(1, Some(3), false, W1, false, false, false, 1), 1, 0, &[Ins(1, 0)]));
// F7 shape: pending insert of a new key, invalidate of the resident, second insert of the new key
// no verdict within 60 min / 40 GB (./check ALL): not instantiated
// sh!(l_burst_ins1_inv0_ins1_cap1, l_burst(&sc(1, Some(1), false, W1, false, false, false, 1), 1, 0, &[Ins(1, 0), Inv(0), Ins(1, 1)]));
sh!(l_burst_ins1_ins1_cap1_cold, l_burst(&sc(1, Some(1), false, W1, false, false, false, 1), 1, 0, &[Ins(1, 0), Ins(1, 1)]));
// no verdict within 60 min / 40 GB (./check ALL): not instantiated
// sh!(l_burst_ins1_ins1_cap1_hot, l_burst(&sc(1, Some(1), false, W1, false, false, false, 1), 2, 1, &[Ins(1, 0), Ins(1, 1)]));
// no verdict within 60 min / 40 GB (./check ALL): not instantiated
// sh!(l_burst_ins1_inv1_ins1_room, l_burst(&sc(1, Some(3), false, W1, true, false, false, 1), 1, 0, &[Ins(1, 0), Inv(1), Ins(1, 1)]));
sh!(l_burst_upd0_inv0_room, l_burst(&sc(1, Some(3), false, W1, true, false, false, 1), 1, 0, &[Ins(0, 1), Inv(0)]));
// a queued update of the resident that the admission of a hot newcomer picks as victim
sh!(l_burst_ins1_upd0_cap1_hot, l_burst(&sc(1, Some(1), false, W1, false, false, false, 1), 2, 1, &[Ins(1, 0), Ins(0, 1)]));
// weighted: the resident's update SHRINKS it (7 -> 3) while it is still counted with 7; the hot newcomer (1) is judged first
// (the order [Ins(1), shrink(0)] is decided step-wise by l_upsert_admission_dirty_victim_*: the whole burst gave no verdict in 40 min)
sh!(l_burst_shrink0_ins1_w_cap7_hot, l_burst(&sc(1, Some(7), true, WT_S, false, false, false, 1), 2, 1, &[Ins(0, 1), Ins(1, 0)]));
// the admission scan meets the node of a resident that was invalidated AFTER the newcomer's insert (its Remove is queued behind)
sh!(l_burst_ins1_inv0_cap1_hot, l_burst(&sc(1, Some(1), false, W1, false, false, false, 1), 2, 1, &[Ins(1, 0), Inv(0)]));
// no verdict within 60 min / 40 GB (./check ALL): not instantiated
// sh!(l_burst_upd0_ins1_cap1_hot, l_burst(&sc(1, Some(1), false, W1, false, false, false, 1), 2, 1, &[Ins(0, 1), Ins(1, 0)]));

// ================================================================================================
// C12 / C13 / C04 / C10: admission that needs TWO victims (newcomer weight 2, two unit residents, full
// cache): both are removed, LRU first, nothing else; with a cold newcomer nothing is touched.
// ================================================================================================
fn l_upsert_admission_2v(hot: bool, ttl: bool) {
    sketch_mode(if hot { 2 } else { 1 }, 2);
    let st = sbuild(&sc(2, Some(2), true, WT_2V, ttl, false, false, 1));
    let g = st.g;
    let inner = &*st.b.inner;
    let k = Arc::new(2u8);
    let info = TrioArc::new(EntryInfo::new(inst(g.now), 2));
    crate::common::concurrent::entry_info::verif_entry_info::register_w(&info, 2, false, true, 2);
    let ent: Ent = TrioArc::new(ValueEntry::new(Val { cls: 0, data: kani::any() }, info));
    inner.cache.insert(Arc::clone(&k), TrioArc::clone(&ent));
    let mut counters = EvictionCounters::new(g.ec, g.ws);
    kani::cover!(true, "inputs chosen");
    {
        let mut deqs = inner.deques.lock().expect("lock poisoned");
        let freq = inner.frequency_sketch.read().expect("lock poisoned");
        inner.handle_upsert(KeyHash::new(Arc::clone(&k), IdH::h(2)), TrioArc::clone(&ent), 0, 2, &mut deqs, &freq, &mut counters);
        let (nodes, an, ok) = dq::walk::<KeyHashDate<u8>, { MAXN }>(&deqs.probation);
        let (_, wn, wok) = dq::walk::<KeyDate<u8>, { MAXN }>(&deqs.write_order);
        chk!(ok && wok, "C08: deques damaged by an admission with two victims");
        if hot {
            chk!(an == 1 && nodes[0] == ao_ptr(&ent), "C12,C11,C08: after admitting over both residents only the newcomer's node remains");
            chk!(wn == if ttl { 1 } else { 0 }, "C11,C05,C08: victims' write-order nodes must be unlinked (iff ttl)");
        } else {
            chk!(an == 2 && wn == if ttl { 2 } else { 0 }, "C13,C12: a rejected newcomer must not touch the residents' nodes");
        }
    }
    chk!(inner.cache.get(&2u8).is_some() == hot, "C13: newcomer admitted iff strictly more popular than the summed popularity of the covering LRU prefix");
    chk!(inner.cache.get(&0u8).is_some() == !hot && inner.cache.get(&1u8).is_some() == !hot, "C12,C13,C04: the victims are exactly the shortest LRU prefix covering the newcomer's weight (both residents), and only on admission");
    chk!(counters.entry_count == if hot { 1 } else { 2 } && counters.weighted_size == 2, "C10,C04: counters after an admission over two victims / after a rejection");
    chk!(ent.is_admitted() == hot, "C10: admitted flag");
    if hot { chk!(!st.ent[0].as_ref().unwrap().is_admitted() && !st.ent[1].as_ref().unwrap().is_admitted(), "C10,C11: evicted victims still flagged admitted"); }
    kani::cover!(true, "end reached");
    std::mem::forget(ent);
    std::mem::forget(st);
}
sh!(l_upsert_admission_two_victims_hot, l_upsert_admission_2v(true, false));
sh!(l_upsert_admission_two_victims_hot_ttl, l_upsert_admission_2v(true, true));
sh!(l_upsert_admission_two_victims_cold, l_upsert_admission_2v(false, true));

// ================================================================================================
// C03 / C01 / C10 (the F7 scenario, step-wise: the whole burst l_burst_ins1_inv0_ins1_cap1 found the
// defect but gives no verdict on the repaired tree within an hour). insert(b); invalidate(a); insert(b)
// un-synced on a full cache of capacity 1. Applying the FIRST queued Upsert(b) -- a stale op: the map
// already holds b's second value -- ends in a rejection (the only possible victim has left the map).
// The rejection must not remove the newer value, whose own op is still queued.
// ================================================================================================
fn l_upsert_stale_reject(then_rest: bool) {
    sketch_mode(1, 0);
    let st = sbuild(&sc(1, Some(1), false, W1, false, false, false, 1));
    let g = st.g;
    let inner = &*st.b.inner;
    let v1 = Val { cls: 0, data: kani::any() };
    let v2 = Val { cls: 1, data: kani::any() };
    let (op1, _) = st.b.do_insert_with_hash(Arc::new(1u8), IdH::h(1), v1);
    if let WriteOp::Upsert { ref value_entry, .. } = op1 {
        crate::common::concurrent::entry_info::verif_entry_info::register_w(value_entry.entry_info(), 1, false, false, 1);
    }
    let kv = st.b.remove_entry(&0u8).unwrap();                                   // invalidate(a)
    let (op2, _) = st.b.do_insert_with_hash(Arc::new(1u8), IdH::h(1), v2);      // second insert(b)
    let mut counters = EvictionCounters::new(g.ec, g.ws);
    kani::cover!(true, "inputs chosen");
    {
        let mut deqs = inner.deques.lock().expect("lock poisoned");
        let freq = inner.frequency_sketch.read().expect("lock poisoned");
        if let WriteOp::Upsert { key_hash, value_entry, old_weight, new_weight } = op1 {
            inner.handle_upsert(key_hash, value_entry, old_weight, new_weight, &mut deqs, &freq, &mut counters);
        }
        let cur = inner.cache.get(&1u8).map(|r| r.value().value);
        chk!(cur == Some(v2), "C03,C01,C10: applying a STALE queued insert of a key removed (or replaced) the key's newer value, whose own write op is still queued");
        if then_rest {
            In::handle_remove(&mut deqs, kv.entry, &mut counters);
            if let WriteOp::Upsert { key_hash, value_entry, old_weight, new_weight } = op2 {
                inner.handle_upsert(key_hash, value_entry, old_weight, new_weight, &mut deqs, &freq, &mut counters);
            }
        } else {
            std::mem::forget(kv); std::mem::forget(op2);
        }
    }
    if then_rest {
        inner.entry_count.store(counters.entry_count);
        inner.weighted_size.store(counters.weighted_size);
        let (cnt, _) = squiescent(inner, MAXN);
        chk!(cnt == 1 && inner.cache.get(&1u8).map(|r| r.value().value) == Some(v2), "C03,C01: after the whole run the cache (capacity 1, the old resident invalidated) must hold b's latest value");
    }
    kani::cover!(true, "end reached");
    std::mem::forget(st);
}
sh!(l_upsert_stale_reject_keeps_newer_value, l_upsert_stale_reject(false));
sh!(l_upsert_stale_reject_then_rest_quiescent, l_upsert_stale_reject(true));

// ================================================================================================
// C10 / C04 / C03: admission over a victim that has a PENDING UPDATE. The resident (counted with
// weight 7) was updated in place to weight 3 after the newcomer's insert was queued, so the shared
// EntryInfo already says 3 while the counters still hold 7 (its Upsert{old 7, new 3} is queued BEHIND
// the newcomer's). Whatever the admission decides, once both ops are applied the counters must equal
// what the cache physically holds.
// ================================================================================================
fn l_upsert_admission_dirty_victim(second: bool) {
    sketch_mode(2, 1);
    let st = sbuild(&sc(1, Some(7), true, WT_S, false, false, false, 1));
    let g = st.g;
    let inner = &*st.b.inner;
    let vb = Val { cls: 0, data: kani::any() };
    let (op_b, _) = st.b.do_insert_with_hash(Arc::new(1u8), IdH::h(1), vb);            // weight 1: 7 + 1 > 7
    if let WriteOp::Upsert { ref value_entry, .. } = op_b {
        crate::common::concurrent::entry_info::verif_entry_info::register_w(value_entry.entry_info(), 1, false, false, g.weigh(1, vb));
    }
    let va = Val { cls: 1, data: kani::any() };
    let (op_a, _) = st.b.do_insert_with_hash(Arc::new(0u8), IdH::h(0), va);            // shrinking update 7 -> 3
    let mut counters = EvictionCounters::new(g.ec, g.ws);
    kani::cover!(true, "inputs chosen");
    {
        let mut deqs = inner.deques.lock().expect("lock poisoned");
        let freq = inner.frequency_sketch.read().expect("lock poisoned");
        if let WriteOp::Upsert { key_hash, value_entry, old_weight, new_weight } = op_b {
            assert!(old_weight == 0 && new_weight == 1, "VERIF-BOUND: harness weights");
            inner.handle_upsert(key_hash, value_entry, old_weight, new_weight, &mut deqs, &freq, &mut counters);
        }
        if second {
            if let WriteOp::Upsert { key_hash, value_entry, old_weight, new_weight } = op_a {
                assert!(old_weight == 7 && new_weight == 3, "VERIF-BOUND: harness weights");
                inner.handle_upsert(key_hash, value_entry, old_weight, new_weight, &mut deqs, &freq, &mut counters);
            }
        } else {
            std::mem::forget(op_a);
        }
    }
    let a_in = inner.cache.get(&0u8).is_some();
    let b_in = inner.cache.get(&1u8).is_some();
    // counted weight of the resident while its update is pending = the op's old weight (7), afterwards 3
    let wa: u64 = if second { 3 } else { 7 };
    let want = (if a_in { wa } else { 0 }) + (if b_in { 1 } else { 0 });
    chk!(counters.entry_count == (a_in as u64) + (b_in as u64), "C10: entry_count != entries physically held after an admission over a victim with a pending update");
    chk!(counters.weighted_size == want, "C10,C04,C03: weighted_size != weight physically held: a victim with a pending update was un-counted with the weight of its QUEUED update instead of the weight that had been counted for it");
    kani::cover!(true, "end reached");
    std::mem::forget(st);
}
sh!(l_upsert_admission_dirty_victim_step1, l_upsert_admission_dirty_victim(false));
sh!(l_upsert_admission_dirty_victim_both, l_upsert_admission_dirty_victim(true));

// ================================================================================================
// C09: shard-guard discipline of the lookups. get() may trigger inline maintenance when it records
// its read (record_read_op -> apply_reads_if_needed -> Housekeeper::try_sync -> Inner::sync, which
// removes from the map): every DashMap guard must have been released by then, on the hit path, the
// expired path and the miss path alike. The container model counts outstanding guards; the
// housekeeping decision point is stubbed by a twin that checks the count (and declines to sync).
// Independently of this harness, every map WRITE reached in any sync query asserts that the calling
// thread holds no guard of the map.
// ================================================================================================
use crate::common::concurrent::housekeeper::Housekeeper;
fn should_apply_no_guard(_hk: &Housekeeper, _len: usize, _now: Instant) -> bool {
    let (r, w) = dashmap::verif_guards();
    chk!(r == 0 && w == 0, "C09: a DashMap guard is still held when the operation reaches its housekeeping point (inline maintenance removes from the map: self-deadlock on the shard lock)");
    unsafe { HK_POINTS += 1; }
    false
}
static mut HK_POINTS: u32 = 0;
fn c09_get_guard(cfg: &SCfg, j: usize) {
    let mut st = sbuild(cfg);
    st.b.housekeeper = Some(Arc::new(Housekeeper::default()));
    let key = j as u8;
    let hidden = j >= cfg.n || st.g.hidden(j);
    let got = st.b.get_with_hash(&key, IdH::h(key));
    chk!(got.is_some() == !hidden, "C01,C05,C06: get result");
    chk!(unsafe { HK_POINTS } == 1, "C09: get must pass its housekeeping point exactly once (reads are applied inline when due)");
    let (r, w) = dashmap::verif_guards();
    chk!(r == 0 && w == 0, "C09: get returned while still holding a map guard");
    let _ = st.b.contains_key(&key);
    let (r, w) = dashmap::verif_guards();
    chk!(r == 0 && w == 0, "C09: contains_key returned while still holding a map guard");
    kani::cover!(true, "end reached");
    std::mem::forget(st);
}
macro_rules! shk {
    ($name:ident, $body:expr) => {
        #[kani::proof]
        #[kani::unwind(6)]
        #[kani::stub(std::time::Instant::now, now_stub)]
        #[kani::stub(Housekeeper::should_apply_reads, should_apply_no_guard)]
        #[kani::stub(Housekeeper::should_apply_writes, should_apply_no_guard)]
        #[kani::stub(AtomicInstant::instant, crate::common::concurrent::atomic_time::verif_atomic_time::instant)]
        #[kani::stub(AtomicInstant::is_set, crate::common::concurrent::atomic_time::verif_atomic_time::is_set)]
        #[kani::stub(AtomicInstant::set_instant, crate::common::concurrent::atomic_time::verif_atomic_time::set_instant)]
        fn $name() { $body }
    };
}
shk!(c09_get_hit_releases_guard, c09_get_guard(&sc(1, Some(3), false, W1, true, true, false, 1), 0));
shk!(c09_get_expired_releases_guard, c09_get_guard(&sc(1, Some(3), false, W1, true, false, false, 2), 0));
shk!(c09_get_invalidated_releases_guard, c09_get_guard(&sc(1, Some(3), false, W1, false, false, true, 4), 0));
shk!(c09_get_miss_releases_guard, c09_get_guard(&sc(1, Some(3), false, W1, false, true, false, 1), 1));

// ================================================================================================
// C07 / C01: maintenance never makes an invalidated entry observable again. State: invalidate_all
// was called at `now`; both residents were written before it (hidden); key 0 (the LRU one) was then
// re-inserted (fresh timestamps, dirty, its deque nodes not yet moved: the Upsert is still queued).
// evict_expired finds the fresh entry at the FRONT of both deques and must leave key 1 hidden.
// ================================================================================================
fn l_purge_fresh_front(cfg: &SCfg) {
    let st = sbuild(cfg);
    let inner = &*st.b.inner;
    assert!(!st.b.contains_key(&0u8) && !st.b.contains_key(&1u8), "VERIF-BOUND: harness time class must hide both residents");
    let nv = Val { cls: 0, data: kani::any() };
    let (op, _) = st.b.do_insert_with_hash(Arc::new(0u8), IdH::h(0), nv);
    chk!(st.b.contains_key(&0u8), "C07: a key re-inserted after invalidate_all must be retrievable at once");
    let mut counters = EvictionCounters::new(st.g.ec, st.g.ws);
    {
        let mut deqs = inner.deques.lock().expect("lock poisoned");
        inner.evict_expired(&mut deqs, 500, &mut counters);
    }
    chk!(!st.b.contains_key(&1u8), "C07,C01: an entry hidden by invalidate_all is observable again after maintenance");
    chk!(st.b.get_with_hash(&1u8, IdH::h(1)).is_none(), "C07,C01: get returns an invalidated value after maintenance");
    chk!(st.b.contains_key(&0u8), "C07,C03: the re-inserted key was removed or hidden by maintenance");
    chk!(st.b.get_with_hash(&0u8, IdH::h(0)) == Some(nv), "C01,C07: the re-inserted key must return its new value");
    kani::cover!(true, "end reached");
    std::mem::forget(op);
    std::mem::forget(st);
}
sh!(l_purge_fresh_front_keeps_watermark, l_purge_fresh_front(&sc(2, Some(9), false, W1, false, false, true, 7)));
sh!(l_purge_fresh_front_keeps_watermark_ttl, l_purge_fresh_front(&sc(2, Some(9), false, W1, true, false, true, 7)));

// ================================================================================================
// C09 / C13: admission while the popularity sketch is not enabled yet (one batch takes a bounded cache
// from under half full to full): every estimate is 0, the candidate is rejected, and the step returns
// (it must not wait for a lock its own caller holds: apply_writes holds the sketch's read lock).
// ================================================================================================
fn l_upsert_admission_nosketch() {
    sketch_mode(3, 0);
    let st = sbuild(&sc(1, Some(1), false, W1, false, false, false, 1));
    let g = st.g;
    let inner = &*st.b.inner;
    let k = Arc::new(1u8);
    let info = TrioArc::new(EntryInfo::new(inst(g.now), 1));
    crate::common::concurrent::entry_info::verif_entry_info::register_w(&info, 1, false, true, 1);
    let ent: Ent = TrioArc::new(ValueEntry::new(Val { cls: 0, data: kani::any() }, info));
    inner.cache.insert(Arc::clone(&k), TrioArc::clone(&ent));
    let mut counters = EvictionCounters::new(g.ec, g.ws);
    kani::cover!(true, "inputs chosen");
    {
        let mut deqs = inner.deques.lock().expect("lock poisoned");
        let freq = inner.frequency_sketch.read().expect("lock poisoned");
        inner.handle_upsert(KeyHash::new(Arc::clone(&k), IdH::h(1)), TrioArc::clone(&ent), 0, 1, &mut deqs, &freq, &mut counters);
    }
    chk!(inner.cache.get(&1u8).is_none() && inner.cache.get(&0u8).is_some(), "C13: with no popularity recorded a newcomer must not displace a resident");
    chk!(counters.entry_count == g.ec && counters.weighted_size == g.ws, "C10: rejection changes nothing");
    kani::cover!(true, "end reached");
    std::mem::forget(ent);
    std::mem::forget(st);
}
sh!(l_upsert_admission_before_sketch_is_enabled, l_upsert_admission_nosketch());
