// Kani harnesses for common::frequency_sketch (child module: sees private fields and fns).
// Included from the scratch copy of /repo by the runner (lib/overlay.py); never compiled without cfg(kani).
//
// Bounds: table length N in {1,2,4,8} concrete per harness (a power of two, as ensure_capacity
// guarantees); table words, `size`, `sample_size`, hashes and probe keys fully symbolic.
// Check tags: every functional assertion message starts with "<property id>:" so that the runner
// can attribute a failing check to a property; untagged checks (overflow, bounds, pointers) are C08.
use super::FrequencySketch;

/// Arbitrary sketch with a concrete table length N (power of two), symbolic words/size/sample_size.
fn any_sketch<const N: usize>() -> FrequencySketch {
    let words: [u64; N] = kani::any();
    let table: Box<[u64]> = Box::new(words);
    FrequencySketch {
        sample_size: kani::any(),
        table_mask: (N as u32) - 1,
        table,
        size: kani::any(),
    }
}

// ---- uninterpreted index function -------------------------------------------------------------
// The two-key lemmas (L2, L2b, L4) replace `FrequencySketch::index_of` (a 64-bit multiply-shift
// mixer: symbolic 64x64 multiplications of two different hashes stall the SAT back end) by an
// ARBITRARY function of (hash, depth) with range [0, table_len): for the two hashes a lemma
// talks about, the four indices are free solver variables, equal hashes get equal indices.
// This over-approximates the real mixer (every concrete index function is one assignment), so a
// lemma proved with it holds for the real one, provided the real index_of is a pure function of
// (hash, depth, table_mask) with results < table_len -- that is what `idx_in_range_*` decides on
// the real code. L1/L3/L6 and idx_* run the real index_of.
static mut UF_H: u64 = 0;
static mut UF_P: u64 = 0;
static mut UF_IH: [usize; 4] = [0; 4];
static mut UF_IP: [usize; 4] = [0; 4];

#[allow(static_mut_refs)]
fn uf_setup(h: u64, p: u64, mask: usize) {
    let ih: [usize; 4] = kani::any();
    let ip: [usize; 4] = kani::any();
    kani::assume(ih[0] <= mask && ih[1] <= mask && ih[2] <= mask && ih[3] <= mask);
    kani::assume(ip[0] <= mask && ip[1] <= mask && ip[2] <= mask && ip[3] <= mask);
    unsafe {
        UF_H = h;
        UF_P = p;
        UF_IH = ih;
        UF_IP = if h == p { ih } else { ip };
    }
}

#[allow(static_mut_refs)]
fn index_of_uf(s: &FrequencySketch, hash: u64, depth: u8) -> usize {
    unsafe {
        if hash == UF_H {
            UF_IH[depth as usize]
        } else if hash == UF_P {
            UF_IP[depth as usize]
        } else {
            kani::any_where(|i: &usize| *i <= s.table_mask as usize)
        }
    }
}

pub(crate) fn any_sketch_pub<const N: usize>() -> FrequencySketch { any_sketch::<N>() }
pub(crate) fn assume_sizing_inv_pub<const N: usize>(s: &FrequencySketch) { assume_sizing_inv::<N>(s) }
pub(crate) fn is_empty(s: &FrequencySketch) -> bool { s.table.is_empty() && s.size == 0 && s.sample_size == 0 && s.table_mask == 0 }
/// (table words, size) of a 4-word sketch
pub(crate) fn snapshot4(s: &FrequencySketch) -> ([u64; 4], u32) {
    ([s.table[0], s.table[1], s.table[2], s.table[3]], s.size)
}
/// sizing of a 4-word table as ensure_capacity(4) leaves it (sample_size = 10 * cap)
pub(crate) fn sizing4() -> FrequencySketch {
    let table: Box<[u64]> = Box::new([0u64; 4]);
    FrequencySketch { sample_size: 40, table_mask: 3, table, size: 0 }
}
/// a second sketch with the given contents and the sizing of `like`
pub(crate) fn rebuild4(words: [u64; 4], size: u32, like: &FrequencySketch) -> FrequencySketch {
    let table: Box<[u64]> = Box::new(words);
    FrequencySketch { sample_size: like.sample_size, table_mask: like.table_mask, table, size }
}

#[inline]
fn nib(w: u64, j: usize) -> u64 {
    (w >> (4 * j)) & 0xF
}

fn snapshot<const N: usize>(s: &FrequencySketch) -> [u64; N] {
    let mut a = [0u64; N];
    let mut i = 0;
    while i < N {
        a[i] = s.table[i];
        i += 1;
    }
    a
}

fn odd_count<const N: usize>(t: &[u64; N]) -> u32 {
    let mut c = 0u32;
    let mut i = 0;
    while i < N {
        c += (t[i] & 0x1111_1111_1111_1111).count_ones();
        i += 1;
    }
    c
}

/// `sample_size`/`size` relation established by `ensure_capacity(cap)` for a table of length N
/// (N = next_power_of_two(min(cap, 2^30)), sample_size = 10*cap, or 10 when cap == 0) and
/// maintained by `increment` (size < sample_size between calls).
fn assume_sizing_inv<const N: usize>(s: &FrequencySketch) {
    let ss = s.sample_size;
    if N == 1 {
        kani::assume(ss == 10);
    } else {
        // cap in (N/2, N]  =>  sample_size = 10*cap
        let cap: u32 = kani::any();
        kani::assume(cap > (N as u32) / 2 && cap <= N as u32);
        kani::assume(ss == cap * 10);
    }
    kani::assume(s.size < ss);
}

// ---------------------------------------------------------------- L1: estimate <= 15
fn l1_frequency_bound<const N: usize>() {
    let s = any_sketch::<N>();
    let h: u64 = kani::any();
    let f = s.frequency(h);
    assert!(f <= 15, "C14:L1 frequency <= 15");
    kani::cover!(f == 15, "freq 15 reachable");
    kani::cover!(f == 0, "freq 0 reachable");
}

// ---------------------------------------------------------------- L2: increment without aging
// freq'(h) = min(freq(h)+1, 15); every counter is monotone; only the four counters of h move,
// each by exactly +1 unless saturated; size' = size + [something moved].
fn l2_increment_no_aging<const N: usize>() {
    let mut s = any_sketch::<N>();
    kani::assume(s.size < u32::MAX - 1 && s.size + 1 < s.sample_size);
    let h: u64 = kani::any();
    let p: u64 = kani::any();
    uf_setup(h, p, N - 1);
    let before: [u64; N] = snapshot::<N>(&s);
    let size0 = s.size;
    let fh = s.frequency(h);
    let fp = s.frequency(p);
    let start = ((h & 3) << 2) as usize;
    let idx = [s.index_of(h, 0), s.index_of(h, 1), s.index_of(h, 2), s.index_of(h, 3)];

    s.increment(h);

    let fh2 = s.frequency(h);
    let fp2 = s.frequency(p);
    assert!(fh2 == if fh < 15 { fh + 1 } else { 15 }, "C14:L2 freq'(h) == min(freq(h)+1,15)");
    assert!(fp2 >= fp, "C14:L2 recording h never lowers another key's estimate");
    let mut moved = 0u32;
    let mut w = 0;
    while w < N {
        let mut j = 0;
        while j < 16 {
            let a = nib(before[w], j);
            let b = nib(s.table[w], j);
            let is_target = j >= start && j < start + 4 && idx[j - start] == w;
            if is_target {
                assert!(b == if a < 15 { a + 1 } else { 15 }, "C14:L2 target counter +1 saturating");
                if a < 15 { moved += 1; }
            } else {
                assert!(b == a, "C14:L2 non-target counter unchanged");
            }
            j += 1;
        }
        w += 1;
    }
    assert!(s.size == size0 + if moved > 0 { 1 } else { 0 }, "C14:L2 size counts recorded increments");
    kani::cover!(fh == 15, "saturated key");
    kani::cover!(fh == 0 && fh2 == 1, "fresh key");
    kani::cover!(fp2 > fp, "collision raises probe");
}

// ---------------------------------------------------------------- L3: reset floor-halves every counter
fn l3_reset_halves<const N: usize>() {
    let mut s = any_sketch::<N>();
    let before: [u64; N] = snapshot::<N>(&s);
    // arithmetic safety of the size update is L6's subject: here restrict to states where the
    // subtraction is in range so that this lemma speaks about the counters only.
    let oc = odd_count::<N>(&before);
    kani::assume((oc >> 2) <= (s.size >> 1));
    let p: u64 = kani::any();
    uf_setup(p, p, N - 1);
    let fp = s.frequency(p);
    s.reset();
    let mut w = 0;
    while w < N {
        let mut j = 0;
        while j < 16 {
            assert!(nib(s.table[w], j) == nib(before[w], j) / 2, "C14:L3 aging floor-halves every counter");
            j += 1;
        }
        w += 1;
    }
    assert!(s.frequency(p) == fp / 2, "C14:L3 aging floor-halves every estimate");
    kani::cover!(fp == 15, "halving 15");
    kani::cover!(fp == 1, "halving 1");
}

// ---------------------------------------------------------------- L6: reset's size arithmetic
// From every state increment() can hand to reset() (size == sample_size after the +1, sizing
// invariant of ensure_capacity, ARBITRARY counters): no arithmetic overflow, and the sizing
// invariant (size < sample_size) holds again afterwards.
fn l6_reset_size_arith<const N: usize>() {
    let mut s = any_sketch::<N>();
    assume_sizing_inv::<N>(&s);
    s.size = s.sample_size; // the only value with which increment() calls reset()
    s.reset();
    assert!(s.size < s.sample_size, "C14:L6 size < sample_size restored by aging");
    kani::cover!(true, "reached end");
}

// ---------------------------------------------------------------- L4: count-min lower bound, inductive
// Ghost c = number of recorded lookups of p (saturating at 15, floor-halved by aging).
// Inv: all four counters of p >= c  (<=> frequency(p) >= c). One increment(h), h arbitrary
// (h == p allowed), aging allowed: Inv holds for the updated ghost.
fn l4_lower_bound_step<const N: usize>() {
    let mut s = any_sketch::<N>();
    assume_sizing_inv::<N>(&s);
    let p: u64 = kani::any();
    let h: u64 = kani::any();
    uf_setup(h, p, N - 1);
    let c: u8 = kani::any();
    kani::assume(c <= 15);
    kani::assume(s.frequency(p) >= c);
    let fh = s.frequency(h);
    let aged = fh < 15 && s.size + 1 >= s.sample_size;
    s.increment(h);
    let mut c2 = if h == p && c < 15 { c + 1 } else { c };
    if aged { c2 /= 2; }
    assert!(s.frequency(p) >= c2, "C14:L4 estimate >= recorded count (count-min lower bound)");
    if !aged && h == p { assert!(s.frequency(p) >= 1, "C14:L4 a recorded key has estimate >= 1"); }
    kani::cover!(aged, "aging step taken");
    kani::cover!(!aged && h == p, "own increment");
    kani::cover!(aged && h == p, "own increment with aging");
}

// ---------------------------------------------------------------- L2b: increment WITH aging = +1 then halve
fn l2b_increment_aging<const N: usize>() {
    let mut s = any_sketch::<N>();
    assume_sizing_inv::<N>(&s);
    kani::assume(s.size + 1 == s.sample_size);
    let h: u64 = kani::any();
    uf_setup(h, h, N - 1);
    let before: [u64; N] = snapshot::<N>(&s);
    let fh = s.frequency(h);
    kani::assume(fh < 15); // something is recorded => aging happens
    let start = ((h & 3) << 2) as usize;
    let idx = [s.index_of(h, 0), s.index_of(h, 1), s.index_of(h, 2), s.index_of(h, 3)];
    s.increment(h);
    let mut w = 0;
    while w < N {
        let mut j = 0;
        while j < 16 {
            let a = nib(before[w], j);
            let is_target = j >= start && j < start + 4 && idx[j - start] == w;
            let a1 = if is_target && a < 15 { a + 1 } else { a };
            assert!(nib(s.table[w], j) == a1 / 2, "C14:L2b aging increment = +1 then floor-halve everything");
            j += 1;
        }
        w += 1;
    }
    assert!(s.size < s.sample_size, "C14:L2b size < sample_size after aging");
    kani::cover!(true, "reached end");
}

// ---------------------------------------------------------------- L0: the empty (disabled) sketch
#[kani::proof]
#[kani::unwind(6)]
fn l0_empty_sketch_is_inert() {
    let mut s = FrequencySketch::default();
    let h: u64 = kani::any();
    assert!(s.frequency(h) == 0, "C14:L0 disabled sketch estimates 0");
    s.increment(h);
    assert!(s.frequency(h) == 0 && s.size == 0 && s.table.is_empty(), "C14:L0 disabled sketch records nothing");
}

macro_rules! inst {
    ($f:ident, $unw:expr, $($name:ident => $n:expr),*) => {
        $( #[kani::proof] #[kani::unwind($unw)] fn $name() { $f::<$n>() } )*
    };
}
macro_rules! inst_uf {
    ($f:ident, $unw:expr, $($name:ident => $n:expr),*) => {
        $( #[kani::proof] #[kani::unwind($unw)]
           #[kani::stub(super::FrequencySketch::index_of, index_of_uf)]
           fn $name() { $f::<$n>() } )*
    };
}

// real index_of: result < table_len for every hash and depth (pure by construction: &self, no writes)
fn idx_in_range<const N: usize>() {
    let s = any_sketch::<N>();
    let h: u64 = kani::any();
    let mut d = 0u8;
    while d < 4 {
        let i = s.index_of(h, d);
        assert!(i < N, "C14:IDX index_of(hash, depth) < table_len");
        d += 1;
    }
}
inst!(idx_in_range, 6, idx_n1 => 1, idx_n2 => 2, idx_n4 => 4, idx_n8 => 8);
inst!(l1_frequency_bound, 6, l1_n1 => 1, l1_n2 => 2, l1_n4 => 4, l1_n8 => 8);
inst_uf!(l2_increment_no_aging, 18, l2_n1 => 1, l2_n2 => 2, l2_n4 => 4, l2_n8 => 8);
inst_uf!(l3_reset_halves, 18, l3_n1 => 1, l3_n2 => 2, l3_n4 => 4, l3_n8 => 8);
inst!(l6_reset_size_arith, 10, l6_n1 => 1, l6_n2 => 2, l6_n4 => 4, l6_n8 => 8);
inst_uf!(l4_lower_bound_step, 10, l4_n1 => 1, l4_n2 => 2, l4_n4 => 4, l4_n8 => 8);
inst_uf!(l2b_increment_aging, 18, l2b_n1 => 1, l2b_n2 => 2, l2b_n4 => 4, l2b_n8 => 8);

// ---------------------------------------------------------------- L5: sizing
// ensure_capacity(cap) from the default sketch, cap CONCRETE per harness (a symbolic cap would
// allocate a symbolic-size table): len = next_power_of_two(min(cap,2^30)) (1 for 0), mask, sample_size.
fn l5_ensure_capacity(cap: u32) {
    let mut s = FrequencySketch::default();
    s.ensure_capacity(cap);
    let len = s.table.len() as u32;
    assert!(len.is_power_of_two(), "C14:L5 table length is a power of two");
    assert!(len >= cap.min(1 << 30) && (len == 1 || len / 2 < cap), "C14:L5 len = next_power_of_two(cap)");
    assert!(s.table_mask == len - 1, "C14:L5 mask = len-1");
    assert!(s.sample_size == if cap == 0 { 10 } else { cap.saturating_mul(10).min(i32::MAX as u32) }, "C14:L5 sample size = 10*cap");
    assert!(s.size == 0, "C14:L5 size starts at 0");
    // growing never shrinks and a second call with a smaller cap is a no-op
    let smaller: u32 = kani::any();
    kani::assume(smaller <= cap);
    let (l0, m0, ss0) = (s.table.len(), s.table_mask, s.sample_size);
    s.ensure_capacity(smaller);
    assert!(s.table.len() == l0 && s.table_mask == m0 && s.sample_size == ss0, "C14:L5 ensure_capacity only grows");
}
#[kani::proof] #[kani::unwind(34)] fn l5_cap0() { l5_ensure_capacity(0) }
#[kani::proof] #[kani::unwind(34)] fn l5_cap1() { l5_ensure_capacity(1) }
#[kani::proof] #[kani::unwind(34)] fn l5_cap3() { l5_ensure_capacity(3) }
#[kani::proof] #[kani::unwind(34)] fn l5_cap5() { l5_ensure_capacity(5) }
#[kani::proof] #[kani::unwind(34)] fn l5_cap8() { l5_ensure_capacity(8) }

/// crate::common::sketch_capacity clamps to 128..=u32::MAX for every u64.
#[kani::proof]
fn l5_sketch_capacity_clamp() {
    let c: u64 = kani::any();
    let k = crate::common::sketch_capacity(c);
    assert!(k >= 128, "C14:L5 sketch capacity >= 128");
    assert!(if c <= 128 { k == 128 } else if c >= u32::MAX as u64 { k == u32::MAX } else { k as u64 == c }, "C14:L5 sketch capacity = clamp(c,128,u32::MAX)");
}
