// Shared helpers for all harness modules (crate::verif_models::common), cfg(kani) only.
use std::time::{Duration, Instant};

/// An Instant `secs` seconds and `nanos` ns after an arbitrary fixed origin.
/// (std's Instant has no public constructor: a zeroed Timespec is a valid value on Linux.)
pub(crate) fn instant_at(secs: u64, nanos: u32) -> Instant {
    let base: Instant = unsafe { std::mem::zeroed() };
    base + Duration::from_secs(secs) + Duration::from_nanos(nanos as u64)
}

/// Symbolic time point: seconds < 2^36 (~2000 years), nanoseconds on a coarse grid unless `fine`.
pub(crate) fn any_time() -> (u64, u32) {
    let s: u64 = kani::any();
    kani::assume(s < (1u64 << 36));
    let n: u32 = kani::any();
    kani::assume(n < 1_000_000_000);
    (s, n)
}

pub(crate) fn le(a: (u64, u32), b: (u64, u32)) -> bool {
    a.0 < b.0 || (a.0 == b.0 && a.1 <= b.1)
}
