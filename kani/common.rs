// Shared helpers for all harness modules (crate::verif_models::common), cfg(kani) only.
use std::time::Instant;

/// Linux `Instant` = Timespec { tv_sec: i64, tv_nsec: u32 (niche-restricted) }, 16 bytes.
/// Building it by transmute (instead of `zeroed() + Duration`) keeps concrete instants concrete for
/// CBMC's constant propagation. The layout assumption is itself decided on every run by the
/// harness `raw_instant_layout_matches_std` (instant_at(t) == zeroed + Duration::new(t) for all t).
#[repr(C)]
#[derive(Clone, Copy)]
struct RawTs { s: i64, n: u32, pad: u32 }

/// An Instant `secs` seconds and `nanos` ns after the harness origin.
pub(crate) fn instant_at(secs: u64, nanos: u32) -> Instant {
    let r = RawTs { s: secs as i64, n: nanos, pad: 0 };
    unsafe { std::mem::transmute::<RawTs, Instant>(r) }
}

pub(crate) fn instant_at_std(secs: u64, nanos: u32) -> Instant {
    let base: Instant = unsafe { std::mem::zeroed() };
    base + std::time::Duration::new(secs, nanos)
}

#[kani::proof]
fn raw_instant_layout_matches_std() {
    let s: u64 = kani::any();
    let n: u32 = kani::any();
    kani::assume(s < (1u64 << 40) && n < 1_000_000_000);
    assert!(instant_at(s, n) == instant_at_std(s, n), "VERIF-BOUND: std::time::Instant layout differs from the harness assumption");
}

pub(crate) fn le(a: (u64, u32), b: (u64, u32)) -> bool {
    a.0 < b.0 || (a.0 == b.0 && a.1 <= b.1)
}
