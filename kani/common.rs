// Shared helpers for all harness modules (crate::verif_models::common), cfg(kani) only.
use std::time::Instant;

/// Linux `Instant` = Timespec { tv_sec: i64, tv_nsec: u32 (niche-restricted) }, 16 bytes.
/// Building it by transmute (instead of `zeroed() + Duration`) keeps concrete instants concrete for
/// CBMC's constant propagation. The layout assumption is itself decided on every run by the
/// harness `raw_instant_layout_matches_std` (instant_at(t) == zeroed + Duration::new(t) for all t).
#[repr(C)]
#[derive(Clone, Copy)]
struct RawTs { s: i64, n: u32, pad: u32 }

/// An Instant `secs` seconds and `nanos` ns after the harness origin.
pub(crate) fn instant_at(secs: u64, nanos: u32) -> Instant {
    let r = RawTs { s: secs as i64, n: nanos, pad: 0 };
    unsafe { std::mem::transmute::<RawTs, Instant>(r) }
}

pub(crate) fn instant_at_std(secs: u64, nanos: u32) -> Instant {
    let base: Instant = unsafe { std::mem::zeroed() };
    base + std::time::Duration::new(secs, nanos)
}

#[kani::proof]
fn raw_instant_layout_matches_std() {
    let s: u64 = kani::any();
    let n: u32 = kani::any();
    kani::assume(s < (1u64 << 40) && n < 1_000_000_000);
    assert!(instant_at(s, n) == instant_at_std(s, n), "VERIF-BOUND: std::time::Instant layout differs from the harness assumption");
}

pub(crate) fn le(a: (u64, u32), b: (u64, u32)) -> bool {
    a.0 < b.0 || (a.0 == b.0 && a.1 <= b.1)
}

// ---------------------------------------------------------------- shared key / value / hasher types
use std::hash::Hasher;
pub(crate) const MAXN: usize = 4; // residents <= 3, plus one newcomer
pub(crate) const YEARS_1000: u64 = 1_000 * 365 * 24 * 3600;
pub(crate) const W1: [[u32; MAXN]; 2] = [[1; MAXN]; 2];
/// weight table with distinct non-unit weights: class 0 (residents) and class 1 (updates/newcomers)
pub(crate) const WT_A: [[u32; MAXN]; 2] = [[3, 5, 2, 4], [7, 1, 6, 9]];
/// an update / newcomer class heavier than any capacity used (20), and a newcomer as heavy as both residents + 1
pub(crate) const WT_B: [[u32; MAXN]; 2] = [[3, 5, 2, 4], [20, 1, 9, 9]];
/// class 1 LIGHTER than class 0 for key 0 (a shrinking update of resident 0), light newcomers
pub(crate) const WT_S: [[u32; MAXN]; 2] = [[7, 1, 2, 4], [3, 5, 6, 9]];
/// unit residents, a newcomer (key 2) that needs TWO victims
pub(crate) const WT_2V: [[u32; MAXN]; 2] = [[1, 1, 2, 1], [1, 1, 2, 1]];
/// zero weights and a heavy one
pub(crate) const WT_Z: [[u32; MAXN]; 2] = [[0, 4, 0, 3], [5, 0, 4, 0]];

pub(crate) trait HK: Hasher + Default + Clone {
    fn h(k: u8) -> u64;
}
#[derive(Default, Clone)]
pub(crate) struct IdH(u64);
impl Hasher for IdH {
    fn finish(&self) -> u64 { self.0 }
    fn write(&mut self, b: &[u8]) { if !b.is_empty() { self.0 = b[0] as u64; } }
    fn write_u8(&mut self, i: u8) { self.0 = i as u64; }
}
impl HK for IdH { fn h(k: u8) -> u64 { k as u64 } }
/// every key collides
#[derive(Default, Clone)]
pub(crate) struct ConstH;
impl Hasher for ConstH {
    fn finish(&self) -> u64 { 0 }
    fn write(&mut self, _b: &[u8]) {}
}
impl HK for ConstH { fn h(_k: u8) -> u64 { 0 } }

// ---------------------------------------------------------------- value type
/// `cls` selects the weight class (concrete where the shape needs concrete weights), `data` is payload.
#[derive(Clone, Copy, PartialEq, Eq)]
pub(crate) struct Val { pub cls: u8, pub data: u8 }

