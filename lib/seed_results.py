#!/usr/bin/env python3
"""Collects /var/tmp/seed_eval/<id>.log (written by lib/eval_seed_targeted.sh or lib/eval_seeds.sh) into
seeded/RESULTS.md and seeded/<id>/meta.json (detected_by)."""
import json, os, re, sys
HERE = os.path.dirname(os.path.abspath(__file__)); V = os.path.dirname(HERE)
sys.path.insert(0, HERE)
import seed_targets
rows = []
for sid in sorted(os.listdir(os.path.join(V, "seeded"))):
    mp = os.path.join(V, "seeded", sid, "meta.json")
    if not os.path.exists(mp):
        continue
    meta = json.load(open(mp))
    if meta.get("status") == "obsolete":
        rows.append((sid, meta["breaks_property"], "n/a", meta["needs_to_manifest"], "OBSOLETE on the repaired tree: " + meta["obsolete_reason"]))
        continue
    t = seed_targets.T.get(sid)
    log = f"/var/tmp/seed_eval/{sid}.log"
    det, how = None, ""
    if t and t[1] is None:
        det, how = False, "NOT detected (expected): " + t[2]
    elif os.path.exists(log):
        txt = open(log).read()
        vs = re.findall(r"^VIOLATION property=(\S+) replay=(\S+)", txt, re.M)
        hs = re.findall(r"^  harness (\S+): (.*)$", txt, re.M)
        if vs:
            det = True
            how = f"./check {vs[0][0]} (quick tier) -> VIOLATION, reproduced natively; query {hs[0][0].split('::')[-1]}: {hs[0][1][:140]}" if hs else "VIOLATION"
        else:
            m = re.search(r"-> exit (\d)", txt)
            det = False
            how = f"NOT detected: check exit {m.group(1) if m else '?'}; " + "; ".join(re.findall(r"^inconclusive: (.*)$", txt, re.M)[:2])[:200]
            notes = re.findall(r"^note: while checking \w+, harness (\S+) also failed a (\S+)-class check", txt, re.M)
            if notes:
                how += f" (the query {notes[0][0]} fails, but on an assertion tagged {notes[0][1]} only)"
    else:
        how = "not evaluated"
    meta["detected_by"] = how if det else None
    meta["evaluation"] = how
    json.dump(meta, open(mp, "w"), indent=1)
    rows.append((sid, meta["breaks_property"], "yes" if det else ("no" if det is False else "?"), meta["needs_to_manifest"], how))
with open(os.path.join(V, "seeded", "RESULTS.md"), "w") as f:
    f.write("# Seeded changes: which check catches which\n\n"
            "Each change was written by an independent sub-agent from the property text alone, compiles, passes the 35 existing tests, and comes with a "
            "demonstration test that fails with it (re-confirmed on the current /repo HEAD with `lib/validate_seed.sh`; changes that the later `fix:` commits "
            "made harmless are marked OBSOLETE). Evaluation: the change is applied to a private clone of /repo and the property's own quick check is run "
            "(`lib/eval_all_seeds.sh` -> `lib/eval_seed.sh`: restricted to the queries listed in `lib/seed_targets.py`, all of which are part of that check's quick tier; "
            "'detected' = the check exits 1 with a VIOLATION line whose counterexample reproduced natively).\n\n"
            "| seed | property | detected | needs | result |\n|---|---|---|---|---|\n")
    for r in rows:
        f.write("| " + " | ".join(x.replace("|", "/") for x in r) + " |\n")
    n = sum(1 for r in rows if r[2] == "yes")
    v = sum(1 for r in rows if r[2] != "n/a")
    f.write(f"\nDetected: {n} of {v} valid changes ({len(rows) - v} obsolete).\n")
print(f"{sum(1 for r in rows if r[2]=='yes')}/{len(rows)} detected")
