"""Registry: which solver queries (Kani harnesses) decide which property, in which tier."""
import os

MOD = {
    "common.rs": "verif_models::common",
    "sketch.rs": "common::frequency_sketch::verif_sketch",
    "deque.rs": "common::deque::verif_deque",
    "builder_utils.rs": "common::builder_utils::verif_builder_utils",
    "clock.rs": "common::time::clock::verif_clock",
    "unsync_cache.rs": "unsync::cache::verif_unsync",
    "unsync_builder.rs": "unsync::builder::verif_unsync_builder",
    "housekeeper.rs": "common::concurrent::housekeeper::verif_housekeeper",
    "concurrent_deques.rs": "common::concurrent::deques::verif_cdeques",
    "sync_base_cache.rs": "sync::base_cache::verif_sync",
    "sync_cache.rs": "sync::cache::verif_sync_cache",
    "sync_builder.rs": "sync::builder::verif_sync_builder",
}

class Harness:
    def __init__(self, file, fn, props, tier="quick", cost=5, what="", bounds="", timeout=None,
                 expect_fail=False, real_map_replay=False, quick=None, required=(), allowed_fail=None, unwind_tag=None):
        self.file = file
        self.fn = fn
        self.name = MOD[file] + "::" + fn
        self.props = set(props)
        self.tier = tier            # "quick": both tiers; "thorough": thorough only
        # properties for which this query is part of the QUICK tier (default: all its properties)
        self.quick = set(quick) if quick is not None else set(props)
        self.cost = cost            # measured seconds (scheduling order, default timeout = 10x, min 120)
        self.timeout = timeout or max(120, int(cost * 10))
        self.what = what
        self.bounds = bounds
        self.expect_fail = expect_fail
        self.real_map_replay = real_map_replay
        self.allowed_fail = allowed_fail  # regex: documented panics this harness is EXPECTED to hit (ignored as failures, must occur)
        self.unwind_tag = unwind_tag     # property for which an unwinding-assertion failure IS the violation (termination queries)
        self.required = tuple(required)   # cover! messages that must be SATISFIED (besides 'end ... reached')

H = []
def add(*a, **k):
    H.append(Harness(*a, **k))

def harness_file(verif, name):
    for h in H:
        if h.name == name:
            return os.path.join(verif, "kani", h.file)
    raise KeyError(name)

# ------------------------------------------------------------------ C14 (+C08 arithmetic): frequency sketch
for n, c in ((1, 1), (2, 1), (4, 1), (8, 2)):
    t = "quick"
    add("sketch.rs", f"l1_n{n}", {"C14", "C08"}, t, c, "frequency(h) <= 15, arbitrary table/hash, real index_of", f"table_len={n}")
    add("sketch.rs", f"idx_n{n}", {"C14", "C08"}, t, 60 if n > 1 else 1, "real index_of(hash, depth) < table_len", f"table_len={n}")
for n, c in ((1, 1), (2, 15), (4, 20), (8, 60)):
    t = "quick" if n <= 4 else "thorough"
    add("sketch.rs", f"l2_n{n}", {"C14", "C08"}, t, c, "increment without aging: +1 saturating on the 4 counters of h, frame, size", f"table_len={n}; index_of uninterpreted")
    add("sketch.rs", f"l2b_n{n}", {"C14", "C08"}, t, c, "increment with aging = +1 then floor-halve every counter", f"table_len={n}; index_of uninterpreted")
    add("sketch.rs", f"l3_n{n}", {"C14", "C08"}, t, c, "reset floor-halves every counter and estimate", f"table_len={n}; index_of uninterpreted")
    add("sketch.rs", f"l4_n{n}", {"C14", "C08"}, t, c, "count-min lower bound preserved by one increment (inductive step, aging included)", f"table_len={n}; index_of uninterpreted")
    add("sketch.rs", f"l6_n{n}", {"C14", "C08"}, "quick", 1 + n, "reset's size arithmetic cannot overflow from any state increment can hand it", f"table_len={n}; cap in (n/2,n]")
for cap in (0, 1, 3, 5, 8):
    add("sketch.rs", f"l5_cap{cap}", {"C14", "C08"}, "quick", 2, "ensure_capacity sizing", f"cap={cap}")
add("sketch.rs", "l5_sketch_capacity_clamp", {"C14", "C08"}, "quick", 1, "sketch_capacity clamps to 128..=u32::MAX", "all u64")
add("sketch.rs", "l0_empty_sketch_is_inert", {"C14", "C08"}, "quick", 1, "disabled sketch records nothing", "")

# ------------------------------------------------------------------ DQ: intrusive list (C08, C11, C12)
for op, props in (("mtb", {"C08", "C12", "C11"}), ("unlink", {"C08", "C11"}), ("unlinkdrop", {"C08", "C11"}), ("pop", {"C08", "C11", "C12"}),
                  ("push", {"C08", "C11", "C12"}), ("mftb", {"C08", "C12"}), ("next", {"C08"}), ("peek", {"C08", "C12"}), ("drop", {"C08", "C11"})):
    lens = (1, 2, 3, 4) if op in ("mtb", "unlink", "unlinkdrop") else (0, 1, 2, 3, 4)
    for ln in lens:
        add("deque.rs", f"dq_{op}_{ln}", props, "quick" if ln <= 3 else "thorough", 3,
            f"Deque::{op} from an arbitrary well-formed list, symbolic cursor and target", f"list length {ln}")
add("deque.rs", "dq_twin_must_fail", {"C08", "C11", "C12"}, "quick", 3, "vacuity twin of the deque family", "list length 3", expect_fail=True)

# ------------------------------------------------------------------ U: unsync cache, one real operation from an Inv-state
import re as _re
def _unsync():
    src = open(os.path.join(os.path.dirname(os.path.dirname(os.path.abspath(__file__))), "kani", "unsync_cache.rs")).read()
    GET = {"C01", "C03", "C10", "C12", "C14"}
    CON = {"C01", "C03", "C15", "C14", "C10", "C06"}
    ITER = {"C01", "C03", "C16", "C15"}
    INSN = {"C01", "C03", "C04", "C10", "C12", "C13", "C14"}
    INSU = {"C01", "C04", "C10", "C12", "C14"}
    INV = {"C07", "C01", "C03", "C10", "C14"}
    EXP = {"C05", "C06"}
    src = _re.sub(r"(?m)\);\s*//.*$", ");", src)   # trailing comments
    for m in _re.finditer(r"^uh(_real_purge)?!\((\w+), \d+, (op_\w+)::<(\w+)>\(&cfgt?\((\d), (.*)\);$", src, _re.M):
        real, name, op, hs, n, tail = m.groups()
        mm = _re.search(r"(true|false), (?:W1|WT_\w+), (true|false), (true|false), WO_\w+, (?:true|false)(?:, \d)?\)(.*)\)$", tail)
        ttl, tti = mm.group(2) == "true", mm.group(3) == "true"
        rest = mm.group(4).lstrip(", ")
        sym_time = name.endswith("_sym")
        props = {"op_get": GET, "op_contains": CON, "op_iter": ITER, "op_invalidate": INV, "op_invalidate_all": INV,
                 "op_invalidate_if": INV, "op_evict_lru": {"C04", "C12", "C10"}, "op_evict_expired": {"C10", "C03", "C11"},
                 "op_get_overcap": GET | {"C04"}, "op_insert_overcap": INSN,
                 "op_insert_sketch_off": {"C13", "C03", "C12", "C10"}, "op_invalidate_all_then_insert": {"C14", "C13", "C07", "C03"}}.get(op)
        if op == "op_insert":
            props = INSU if "_upd" in name else INSN
        props = set(props) | {"C08"}
        if ttl: props |= {"C05", "C11"}
        if tti: props |= {"C06"}
        if "nocap" in name: props |= {"C17"}
        if op == "op_evict_lru" and "within" in name: props |= {"C03"}
        QUICK_SYM = ("contains_n2_both_sym", "contains_n2_tti_sym", "get_hit0_n2_ttl_sym", "get_hit1_n2_tti_sym", "insert_upd0_n2_both_sym")
        tier = "thorough" if (sym_time and name not in QUICK_SYM) or "_n3_" in name or name in ("purge_both_two_of_three_w", "get0_ttl_on_deadline_realpurge", "get1_tti_realpurge", "contains1_max_dur_realpurge") else "quick"
        prim = {"op_get": {"C01", "C12", "C14"}, "op_contains": {"C15"}, "op_iter": {"C16", "C15"},
                "op_invalidate": {"C07"}, "op_invalidate_all": {"C07", "C10"}, "op_invalidate_if": {"C07", "C10"},
                "op_evict_lru": {"C04", "C12"}, "op_evict_expired": {"C10", "C03", "C11"},
                "op_get_overcap": {"C04", "C12"}, "op_insert_overcap": {"C04", "C03"}, "op_insert_sketch_off": {"C13"}, "op_invalidate_all_then_insert": {"C14", "C07"}}.get(op, set())
        if op == "op_insert":
            prim = {"C01", "C10"} if "_upd" in name else {"C03", "C04", "C13", "C12"}
        prim = set(prim)
        if ttl: prim |= {"C05"}
        if tti: prim |= {"C06"}
        if name in ("get_hit0_n2_full", "insert_new_n2_full", "insert_upd_n2_w_grow", "invalidate_if_n2_w_m0001", "iter_n2", "contains_n2_full",
                    "evict_lru_n2_grown", "purge_tti_on_deadline_w", "contains0_ttl_realpurge", "insert_new_n2_zero_victim", "invalidate_all_both"):
            prim |= {"C08"}
        if name in ("insert_new_n2_room", "insert_new_ttl_full", "insert_new_ttl_room", "purge_both_zero_dur_w", "invalidate1_n2_w", "invalidate1_ttl"):
            prim |= {"C11"}
        if name == "insert_upd0_n2_full":
            prim |= {"C12"}
        if name == "insert_new_n2_w_no_prefix":
            prim = {"C13", "C12"}
        if name == "insert_upd0_n2_w_oversize":
            prim = {"C01", "C04", "C10"}
        if name in ("insert_new_n2_full", "insert_new_n2_w_admit", "insert_upd_n2_w_shrink", "insert_upd_n2_w_grow", "invalidate1_n2_w", "evict_lru_n2_grown"):
            prim |= {"C10"}
        if name in ("contains_n2_full", "iter_n2", "insert_new_n2_full", "invalidate0_n2", "invalidate_all_n2"):
            prim |= {"C14"}
        if name == "insert_new_ttl_full":
            prim |= {"C08"}
        if name in ("purge_both_tti_only_w", "purge_both_ttl_only_w"):
            prim |= {"C05", "C06", "C07"}
        cost = 60
        if sym_time: cost = 300
        if real and not sym_time: cost = 90
        bounds = f"n={n} residents (keys concrete, LRU order = key order), hasher {hs}; " + \
                 ("clock, ttl/tti (<= 1000 y), all timestamps symbolic at ns resolution; " if sym_time else ("concrete time class; " if (ttl or tti) else "no expiry; ")) + \
                 "capacity and weight table concrete; values, sketch contents, predicate masks symbolic; " + \
                 ("real evict_expired" if real else "evict_expired replaced by a no-op (decided by the purge_* queries)")
        add("unsync_cache.rs", name, props, tier, cost, f"unsync {op[3:]}({rest or ''}) [{name}]", bounds, real_map_replay=True, quick=prim,
            required=("admitted over victims", "newcomer rejected") if name in ("insert_new_n2_full", "insert_new_n2_w_admit", "insert_new_ttl_full", "insert_new_tti_full", "insert_new_both_full", "insert_new_n2_zero_victim") else ())
_unsync()
add("unsync_cache.rs", "k1_is_expired_wo_iff_deadline_passed", {"C05", "C08"}, "quick", 5, "is_expired_entry_wo <=> lm + ttl <= now", "all instants < 2^36 s, ttl <= 1000 y, ns resolution")
add("unsync_cache.rs", "k1_is_expired_ao_iff_deadline_passed", {"C06", "C08"}, "quick", 5, "is_expired_entry_ao <=> la + tti <= now", "all instants < 2^36 s, tti <= 1000 y, ns resolution")
add("unsync_cache.rs", "k1_is_expired_entry_reads_the_entrys_own_nodes", {"C05", "C06", "C16", "C08"}, "quick", 60, "is_expired_entry(entry) (iteration filter) <=> that entry's deadlines", "n=2, symbolic times")
add("common.rs", "raw_instant_layout_matches_std", {"C05", "C06"}, "quick", 2, "harness assumption: layout of std::time::Instant", "all instants")
for _n, _t in ((1, "quick"), (2, "quick"), (3, "quick")):
    add("unsync_cache.rs", f"evict_lru_lemma_n{_n}", {"C12", "C04", "C10", "C08", "C11"}, _t, 20, "evict_lru_entries for ALL weights and capacities: exactly the shortest LRU prefix covering the excess",
        f"n={_n} residents, weights (u32) and capacity (u64) symbolic", quick={"C12", "C04"})
for _n in (1, 2):
    add("unsync_cache.rs", f"handle_insert_lemma_n{_n}", {"C13", "C12", "C03", "C04", "C10", "C08", "C11"}, "quick", 25, "handle_insert for ALL weights / candidate weights / capacities / sketch contents",
        f"n={_n} residents; u32 weights, u64 capacity, sketch symbolic", quick={"C13", "C03", "C04", "C10"},
        required=("fits", "heavier than the capacity", "admitted over all residents", "rejected by admission"))
add("unsync_cache.rs", "handle_update_lemma_n2", {"C10", "C04", "C12", "C01", "C08"}, "quick", 20, "handle_update for ALL old/new weights", "n=2, u32 weights symbolic", quick={"C10", "C04"})
for _n, _t in ((1, "quick"), (2, "quick"), (3, "quick")):
    add("unsync_cache.rs", f"admit_lemma_n{_n}", {"C13", "C12", "C10", "C08"}, _t, 20, "Cache::admit for ALL weights, candidate weights and sketch contents: Admitted <=> shortest covering LRU prefix exists and is strictly less popular; victims = that prefix",
        f"n={_n} residents, weights/candidate/sketch symbolic (u32 full range)", quick={"C13", "C12"},
        required=("rejected on popularity", "rejected: no covering prefix", "admitted over all residents"))
add("unsync_cache.rs", "c11_drop_cache_with_one_entry_releases_it_once", {"C11", "C08"}, "quick", 40, "public insert from an empty cache, then the cache's own drop glue: the value is dropped exactly once", "1 insert, ttl on/off symbolic", quick={"C11"})
add("unsync_cache.rs", "c11_update_and_invalidate_release_values_at_once", {"C11", "C08"}, "quick", 60, "insert, update, invalidate, drop through the public API with a drop-counting value", "3 operations from the empty cache", quick={"C11"})
add("unsync_cache.rs", "c11_evicted_and_rejected_values_are_released_at_once", {"C11", "C13", "C12", "C08"}, "quick", 60, "public API from the empty cache: rejected newcomer, recorded miss, admitted newcomer evicting the resident, drop; drop-counting value", "capacity 1, 4 operations", quick={"C11"})
add("unsync_cache.rs", "c11_expired_value_is_released_by_the_next_operation", {"C11", "C05", "C10", "C15", "C08"}, "quick", 60, "public API from the empty cache with ttl: insert, clock on the deadline, contains_key, get (purge), drop; drop-counting value", "ttl 10 s, 3 operations", quick={"C11"})
add("unsync_cache.rs", "unsync_twin_must_fail", {"C01", "C03", "C04", "C05", "C06", "C07", "C08", "C10", "C12", "C13", "C15", "C16"}, "quick", 60,
    "vacuity twin of the unsync family", "n=2", expect_fail=True)

# ------------------------------------------------------------------ C17: configuration
add("builder_utils.rs", "within_limit_never_panics", {"C17", "C08"}, "quick", 2, "ensure_expirations_or_panic returns for every ttl/tti <= 1000 y", "all Option<Duration>", required=("exactly 1000 years accepted",))
add("builder_utils.rs", "beyond_limit_always_panics", {"C17", "C08"}, "quick", 2, "ensure_expirations_or_panic never returns when a duration exceeds 1000 y (from +1 ns)", "all Option<Duration>",
    allowed_fail=r"time_to_(live|idle) is longer than 1000 years")
add("unsync_builder.rs", "policy_reports_exactly_the_knobs", {"C17"}, "quick", 30, "unsync builder: every knob combination -> policy() and private fields", "all capacities, durations <= 1000 y, initial capacities")
add("unsync_builder.rs", "builder_new_equals_max_capacity_and_initial_capacity_is_inert", {"C17"}, "quick", 30, "CacheBuilder::new(n) == default().max_capacity(n); initial_capacity inert", "all n, all initial capacities")
add("unsync_builder.rs", "weigher_knob", {"C17"}, "quick", 30, "no weigher => weight 1", "all keys/values")
add("unsync_cache.rs", "c17_unbounded_never_evicts_for_size", {"C17", "C03"}, "quick", 30, "no max_capacity => has_enough_capacity always, weights_to_evict == 0", "all counter values")
add("unsync_cache.rs", "c04_capacity_arithmetic", {"C04", "C03", "C12"}, "quick", 30, "capacity predicates for all (weighted_size, weight, capacity)", "weighted_size < 2^63")

# ------------------------------------------------------------------ S: sync cache, function level, container models
QUICK_SYNC = {   # sync queries per property in the quick tier (10-90 s each with the field-sensitivity setting)
    "s_get0_live": {"C01", "C03", "C08", "C14"},
    "s_get_absent": {"C01", "C14"},
    "s_insert_update0": {"C01", "C05", "C06"},
    "s_insert_new": {"C01", "C05"},
    "s_insert_update1_no_expiry": {"C01", "C07", "C16", "C03"},
    "l_purge_fresh_front_keeps_watermark": {"C07", "C01"},
    "l_upsert_admission_n1_hot": {"C13", "C12", "C04", "C10"},
    "l_upsert_admission_n1_cold": {"C13", "C03"},
    "l_upsert_admission_n2_hot": {"C12", "C13", "C11"},
    "l_upsert_admission_n2_victim_hot": {"C13"},
    "s_iterfilter0_before_watermark_no_expiry": {"C01", "C16", "C07"},
    "s_get0_ttl_deadline": {"C05", "C01"},
    "s_contains0_ttl_deadline": {"C05", "C15"},
    "s_get0_tti_deadline": {"C06"},
    "s_contains1_tti_1ns_before": {"C06", "C15"},
    "s_apply_reads_hit0": {"C14"},
    "s_apply_reads_miss": {"C14"},
    "s_contains_absent": {"C14", "C15"},
    "s_contains0_before_watermark": {"C07"},
    "s_contains1_same_reading_as_watermark": {"C07"},
    "s_get1_same_reading_as_watermark": {"C07"},
    "s_get0_before_watermark": {"C07"},
    "s_contains0_written_before_watermark_read_on_it": {"C07", "C01"},
    "s_get0_written_before_watermark_read_on_it": {"C07", "C01"},
    "s_iterfilter0_written_before_watermark_read_on_it": {"C16", "C01", "C07"},
    "s_insert_update0_below_watermark_no_expiry": {"C07", "C16", "C01", "C03"},
    "s_invalidate_all_2": {"C07"},
    "s_invalidate_all_again": {"C07"},
    "s_iterfilter0_ttl_deadline": {"C16", "C05"},
    "s_iterfilter1_live": {"C16", "C15"},
    "l_upsert_update_n1": {"C03", "C04", "C10", "C11"},
    "l_upsert_update_n2_lru_ttl": {"C06", "C10", "C12", "C05"},
    "l_upsert_admit_fits_unbounded": {"C03", "C10", "C04"},
    "l_upsert_admit_fits_cap": {"C03", "C04", "C10"},
    "l_evict_lru_exact_n2": {"C12", "C04", "C10"},
    "l_purge_one_ttl_deadline": {"C05", "C10", "C03"},
    "l_purge_one_tti_live": {"C06", "C03"},
    "l_purge_one_watermark": {"C07", "C10"},
    "l_apply_reads_hit_n1": {"C03", "C07", "C06"},
    "l_apply_reads_hit_n2_lru": {"C06", "C12", "C03"},
    "l_remove_n1": {"C10", "C11", "C07"},
    "l_remove_n2_mru": {"C07", "C08", "C10"},
    "s_upsert_update0": {"C10", "C12", "C06"},
    "s_upsert_update1_stale": {"C10", "C03", "C08"},
    "s_upsert_new_fits": {"C03", "C10", "C12", "C05"},
    "s_upsert_new_fits_stale": {"C03", "C04", "C10"},
    "s_remove0": {"C07", "C10", "C11", "C08"},
    "s_evict_lru_exact": {"C04", "C12", "C10"},
    "s_evict_lru_within": {"C03", "C04"},
    "s_purge_nothing": {"C03", "C05", "C06"},
    "l_evict_lru_both_n2": {"C12", "C04", "C10"},
    "l_evict_lru_both_n2_ttl": {"C11", "C08"},
    "l_purge_two_ttl_one_expired": {"C05", "C10", "C03"},
    "l_purge_two_tti_one_expired": {"C06", "C03"},
    "l_purge_two_watermark_one_hidden": {"C07", "C10"},
    "l_purge_two_both_hidden": {"C07", "C11"},
    # un-synced bursts (stale queued operations) that are cheap enough for every change
    "l_burst_ins1_inv0_cap1_hot": {"C08", "C11", "C10"},
    "l_burst_ins1_room": {"C03", "C10"},
    "l_burst_ins1_cap1_cold": {"C13", "C03"},
    "l_burst_ins1_ins1_cap1_cold": {"C10", "C01", "C04"},
    "l_burst_upd0_inv0_room": {"C07", "C10", "C11"},
    "l_burst_shrink0_ins1_w_cap7_hot": {"C10", "C04", "C13"},
}
def _sync():
    src = open(os.path.join(os.path.dirname(os.path.dirname(os.path.abspath(__file__))), "kani", "sync_base_cache.rs")).read()
    bs = "sync cache at function level; dashmap/crossbeam-channel replaced by single-threaded models; n<=2 admitted residents (keys concrete), concrete capacity/weights/time class; values, sketch, read timestamps symbolic; housekeeper excluded (no inline maintenance)"
    for m in _re.finditer(r"^sh!\((\w+), ([sl]_\w+)\(&sc\((.*)\);", src, _re.M):
        name, fn, tail = m.groups()
        mm = _re.search(r"(true|false), (true|false), (true|false), \d\)(.*)\)$", tail)
        ttl, tti, va = mm.group(1) == "true", mm.group(2) == "true", mm.group(3) == "true"
        rest = mm.group(4)
        props = {"C08"}
        prim = set()
        if fn == "s_lookup":
            which = rest.split(",")[-1].strip()
            props |= {"C01", "C03", "C14", "C15"}
            if which == "0": prim |= {"C15", "C01"}
            if which == "1": prim |= {"C01", "C14", "C03"}
            if which == "2": props |= {"C16"}; prim |= {"C16", "C01"}
            if ttl: props |= {"C05"}; prim |= {"C05"}
            if tti: props |= {"C06"}; prim |= {"C06"}
            if va: props |= {"C07"}; prim |= {"C07"}
        elif fn == "s_insert":
            props |= {"C01", "C05", "C06", "C10", "C14", "C16", "C07", "C03"}; prim |= {"C01", "C05", "C06"}
        elif fn == "s_invalidate_all":
            props |= {"C07", "C01"}; prim |= {"C07"}
        elif fn == "l_upsert_update":
            props |= {"C10", "C03", "C04", "C06", "C05", "C12", "C11", "C01"}; prim |= {"C10", "C06", "C12", "C03", "C04", "C05"}
        elif fn == "l_upsert_admit_fits":
            props |= {"C10", "C03", "C04", "C12", "C05"}; prim |= {"C10", "C03", "C04"}
        elif fn == "l_upsert_admission":
            props |= {"C13", "C12", "C10", "C04"}; prim |= {"C13", "C12"}
        elif fn == "l_upsert_admission_c":
            props |= {"C13", "C12", "C10", "C04", "C03", "C11"}
        elif fn == "l_burst":
            props |= {"C10", "C03", "C01", "C07", "C04", "C11", "C09"}
        elif fn == "l_purge_fresh_front":
            props |= {"C07", "C01", "C03", "C05"}
        elif fn == "l_evict_lru_both":
            props |= {"C12", "C04", "C10", "C11"}
        elif fn == "l_purge_two":
            props |= {"C10", "C03", "C05", "C06", "C07", "C11"}
        elif fn == "l_evict_lru_exact":
            props |= {"C12", "C04", "C10", "C11"}; prim |= {"C12", "C04"}
        elif fn == "l_purge_one":
            props |= {"C10", "C03", "C05", "C06", "C07"}; prim |= {"C10", "C05" if ttl else "C06" if tti else "C07"}
        elif fn == "l_apply_reads_hit":
            props |= {"C03", "C07", "C06", "C12", "C05", "C10"}
        elif fn == "l_remove":
            props |= {"C07", "C10", "C11"}; prim |= {"C07", "C10", "C11"}
        elif fn == "s_handle_upsert":
            props |= {"C03", "C04", "C10", "C12", "C13", "C06", "C05", "C01"}
            prim |= {"C10", "C03", "C04"}
            if "new" in name: prim |= {"C13", "C12"}
            else: prim |= {"C06", "C12"}
        elif fn == "s_apply_reads":
            props |= {"C06", "C12", "C14", "C03", "C07", "C15"}; prim |= {"C06", "C12", "C14"}
        elif fn == "s_handle_remove":
            props |= {"C07", "C10", "C11", "C03"}; prim |= {"C07", "C10"}
        elif fn == "s_evict_lru":
            props |= {"C04", "C12", "C10"}; prim |= {"C04", "C12"}
        elif fn == "s_evict_expired":
            props |= {"C05", "C06", "C07", "C10", "C03"}; prim |= {"C10", "C05" if ttl else "C06" if tti else "C07"}
        if name in ("s_get0_live", "l_upsert_update_n2_lru_ttl", "l_upsert_admission_n2", "l_remove_n2_mru", "l_evict_lru_exact_n2", "l_purge_one_ttl_deadline", "s_apply_reads_hit0"):
            prim |= {"C08"}
        prim = set(QUICK_SYNC.get(name, ()))
        add("sync_base_cache.rs", name, props, "quick", 60, f"sync {fn[2:]}{rest} [{name}]", bs, quick=prim,
            required=("stale hit (recorded before the entry's last access)", "fresh hit") if name.startswith("l_apply_reads_hit") else ())
_sync()
add("sync_base_cache.rs", "s_k1_is_expired_wo", {"C05", "C07", "C08"}, "quick", 5, "sync is_expired_entry_wo <=> lm < valid_after or lm + ttl <= now", "all instants/durations symbolic, ns resolution")
add("sync_base_cache.rs", "s_k1_is_expired_ao", {"C06", "C07", "C08"}, "quick", 5, "sync is_expired_entry_ao <=> la < valid_after or la + tti <= now", "all instants/durations symbolic, ns resolution")
add("sync_base_cache.rs", "sync_twin_must_fail", {"C01", "C05", "C06", "C07", "C10"}, "quick", 60, "vacuity twin of the sync family", "n=2", expect_fail=True)

# ------------------------------------------------------------------ C09: housekeeper / back-pressure
add("housekeeper.rs", "try_sync_releases_the_flag_on_every_path", {"C09", "C08"}, "quick", 10, "Housekeeper::try_sync flag discipline for an arbitrary InnerSync", "all clock readings; flag free/busy")
add("housekeeper.rs", "full_queue_always_triggers_maintenance", {"C09", "C08"}, "quick", 10, "should_apply_* true whenever the queue is at its flush point (both housekeeping regimes); queue sizes >= flush points", "all queue lengths and clock readings")
add("sync_cache.rs", "schedule_write_op_on_a_full_queue_runs_maintenance_and_returns", {"C09", "C08"}, "quick", 60, "schedule_write_op with a FULL queue: runs maintenance once, enqueues, never sleeps", "model queue capacity 2; draining InnerSync")
add("sync_cache.rs", "schedule_write_op_retries_maintenance_until_the_queue_has_room", {"C09", "C08"}, "quick", 30, "schedule_write_op on a FULL queue while another thread holds the maintenance flag, which is released during the retry sleep: the writer retries maintenance and completes in two rounds", "model queue capacity 2; sleep stubbed by 'other thread finishes'", unwind_tag="C09")
for _nm in ("invalidate_removes_an_idle_expired_entry", "invalidate_removes_an_entry_below_the_watermark"):
    add("sync_cache.rs", _nm, {"C07", "C10", "C11"}, "quick", 30, "Cache::invalidate of an entry that lookups already hide (tti deadline / watermark) but that is still in the map: removed and its Remove queued", "n=2, concrete time class", quick={"C07"})
add("sync_cache.rs", "sync_iter_skips_entry_that_expires_after_iter_was_created", {"C16", "C05", "C06", "C15"}, "quick", 30, "real sync Iter (src/sync/iter.rs) over the map model; the clock passes key 0's ttl deadline between iter() and next()", "n=2, concrete time classes 8 -> 2", quick={"C16", "C05"})
add("sync_cache.rs", "sync_iter_yields_each_live_entry_once", {"C16", "C05", "C06", "C07", "C15", "C01"}, "quick", 30, "real sync Iter over the map model, ttl+tti+watermark, everything live", "n=2, time class 1", quick={"C16", "C01"})
add("sync_base_cache.rs", "l_sync_idle_over_capacity_evicts", {"C04", "C12", "C10", "C09", "C08"}, "quick", 90, "whole Inner::sync with EMPTY queues on a cache above max_capacity: evicts the LRU excess", "n=2 (3+5 > 5), no expiry", quick={"C04"})
add("sync_cache.rs", "schedule_write_op_with_room_enqueues_once", {"C09", "C08"}, "quick", 60, "schedule_write_op with room: flag free or busy", "model queue capacity 2")

for _n in (1, 2):
    add("sync_base_cache.rs", f"s_admit_lemma_n{_n}", {"C13", "C12", "C08"}, "quick", 25, "sync Inner::admit for ALL weights / candidate weights / sketch contents (decision only; read-only)",
        f"n={_n} admitted residents, u32 weights symbolic", required=("rejected on popularity", "rejected: no covering prefix", "admitted over all residents"))
add("sync_base_cache.rs", "l_sync_round_plain", {"C10", "C03", "C09", "C12", "C01", "C06", "C08"}, "quick", 60, "one whole Inner::sync with a queued Hit and a queued insert that fits", "n=1 + 1 pending, unbounded, symbolic read timestamp", quick={"C10", "C03", "C09", "C12"}, unwind_tag="C09")
add("sync_base_cache.rs", "l_apply_writes_update_then_remove_q2", {"C07", "C10", "C11", "C09", "C08"}, "thorough", 200, "the real apply_writes loop over TWO queued ops (update of a resident, then its removal)", "n=1, queue [Upsert, Remove]", quick={"C09"})
add("sync_base_cache.rs", "l_sync_round_plain_late", {"C05", "C06", "C10", "C03", "C09", "C12", "C01", "C08"}, "quick", 60, "one whole Inner::sync run LATER than the queued insert it applies (clock advanced): timestamps still those of the insert", "n=1 + 1 pending, unbounded, symbolic read timestamp", quick={"C05", "C06"})
add("sync_base_cache.rs", "l_evict_lru_terminates_on_unevictable_node", {"C09", "C08"}, "quick", 60, "evict_lru_entries over capacity with only an invalidated (unevictable) node left: bounded by its batch size", "n=1 whose map entry is gone, batch size 2", unwind_tag="C09")
for _nm in ("hit", "expired", "invalidated", "miss"):
    add("sync_base_cache.rs", f"c09_get_{_nm}_releases_guard", {"C09", "C08"}, "quick", 30, "get/contains_key release every DashMap guard before the housekeeping point (inline maintenance) and before returning",
        "n=1 resident, concrete time class; guard counter of the container model; housekeeping decision stubbed by a checking twin")
add("sync_base_cache.rs", "s_eviction_counters_never_overflow", {"C10", "C08"}, "quick", 2, "EvictionCounters saturating arithmetic", "all u64 totals, u32 weights")
add("sync_cache.rs", "invalidate_of_a_pending_insert_queues_its_removal", {"C07", "C11", "C10"}, "quick", 60, "Cache::invalidate of a key whose Upsert is still queued", "n=1 admitted + 1 pending; model queue 4", quick={"C07", "C11", "C10"})
add("sync_cache.rs", "contains_key_and_iter_are_not_maintenance_points", {"C15", "C16", "C14", "C09"}, "quick", 60, "public sync contains_key / iter with writes queued and the housekeeper due: no maintenance, nothing recorded; get tries exactly once", "n=1 + 1 pending; try_sync stubbed by a counting twin", quick={"C15", "C16"})
add("sync_cache.rs", "sync_initial_capacity_is_inert", {"C17", "C13"}, "quick", 100, "sync builder: initial_capacity leaves sketch state, policy and counters of a fresh cache unchanged", "all capacities, initial capacities < 2^40", quick={"C17"})
for _nm in ("hot", "hot_ttl", "cold"):
    add("sync_base_cache.rs", f"l_upsert_admission_two_victims_{_nm}", {"C12", "C13", "C04", "C10", "C11", "C08"}, "quick" if _nm == "hot" else "thorough", 100, "handle_upsert admission that needs TWO victims (newcomer weight 2 over two unit residents), concrete sketch",
        "n=2 unit residents, capacity 2, newcomer weight 2", quick={"C12", "C13"})
for _nm in ("keeps_newer_value", "then_rest_quiescent"):
    add("sync_base_cache.rs", f"l_upsert_stale_reject_{_nm}", {"C03", "C01", "C10", "C11", "C08"}, "quick", 60, "F7 scenario step-wise: a stale queued insert of a key is rejected while the key's newer value (own op still queued) is in the map",
        "n=1 (invalidated, Remove pending) + 2 queued inserts of one key, capacity 1; concrete sketch", quick={"C03", "C10", "C01"})
for _nm in ("step1", "both"):
    add("sync_base_cache.rs", f"l_upsert_admission_dirty_victim_{_nm}", {"C10", "C04", "C03", "C13", "C08"}, "quick", 30, "handle_upsert admission whose LRU victim has a PENDING (queued) weight-changing update: counters == physical contents afterwards",
        "n=1 resident (counted 7, shared weight 3), hot newcomer (1), capacity 7; concrete sketch", quick={"C10", "C04", "C03"})
add("sync_base_cache.rs", "l_upsert_admission_before_sketch_is_enabled", {"C09", "C13", "C10", "C08"}, "quick", 60, "handle_upsert admission while the sketch is not enabled yet: rejected, returns (holds the sketch read lock as apply_writes does)", "n=1 full unit-weight cache", quick={"C09", "C13"}, unwind_tag="C09")
add("sync_builder.rs", "sync_policy_reports_exactly_the_knobs", {"C17"}, "quick", 100, "sync builder: every knob combination -> policy()", "all capacities, durations <= 1000 y")
add("sync_builder.rs", "sync_builder_new_equals_max_capacity", {"C17"}, "quick", 100, "sync CacheBuilder::new(n) == max_capacity(n); initial_capacity inert for policy", "all n")

# measured cost of every query (seconds, one query alone; lib/costs.json is written from a run of `./check ALL`):
# replaces the registered estimate for scheduling, time allowance and the thinning of the quick tier
import json as _json
try:
    _C = _json.load(open(os.path.join(os.path.dirname(os.path.abspath(__file__)), "costs.json")))
except Exception:
    _C = {}
for _h in H:
    _m = _C.get(_h.name)
    if _m and _m.get("status") in ("SUCCESSFUL", "FAILED") and _m.get("s") is not None:
        _h.cost = max(1, int(_m["s"]))
        _h.timeout = max(240, int(_m["s"] * 8))
        _h.measured = True
    else:
        _h.measured = False

PROPS = {}
QUICK_UNSYNC_CAP = 14
# queries that the thinning must never drop (each is the only quick witness of some failure class)
KEEP = {"contains_n2_both_sym", "contains_n2_tti_sym", "get_hit0_n2_ttl_sym", "get_hit1_n2_tti_sym", "insert_upd0_n2_both_sym", "insert_upd0_n2_w_oversize", "purge_tti_on_deadline_w", "insert_new_n2_w_overcap", "insert_new_ttl_full", "insert_new_tti_full",
        "invalidate1_ttl", "insert_new_n2_w_admit", "insert_upd0_n2_full", "insert_new_n2_w_no_prefix", "get0_ttl_on_deadline",
        "contains0_tti_1ns_before", "iter_max_dur", "insert_new_n2_full", "get_hit0_n2_full", "evict_lru_n2_grown", "get_hit1_n2_w_overcap"}
def plan(prop, tier):
    if tier == "thorough":
        return [h for h in H if prop in h.props]
    q = [h for h in H if prop in h.props and h.tier == "quick" and prop in h.quick]
    u = [h for h in q if h.file == "unsync_cache.rs" and not h.expect_fail and h.cost >= 45]
    if len(u) > QUICK_UNSYNC_CAP:
        # deterministic thinning that keeps the spread over operation kinds: every k-th in registration order
        keep = {h.name for h in u if h.fn in KEEP}
        rest = [h for h in u if h.fn not in KEEP]
        room = max(0, QUICK_UNSYNC_CAP - len(keep))
        k = len(rest) / room if room else 0
        i = 0.0
        while room and int(i) < len(rest) and len(keep) < QUICK_UNSYNC_CAP:
            keep.add(rest[int(i)].name)
            i += k
        q = [h for h in q if h not in u or h.name in keep]
    return q

def refresh_props():
    PROPS.clear()
    for h in H:
        for p in h.props:
            PROPS.setdefault(p, []).append(h)

_UB = ("unsync cache: n <= 2 residents in the quick tier (3 in the thorough tier), keys concrete 0..n in LRU order + one newcomer, 4-slot map model; capacity and weight table concrete per query "
       "(unit / distinct / zero weights / oversize), quick tier: concrete time classes (all live, on a deadline, 1 ns before, zero and 1000-year durations, both policies with one deadline passed), "
       "thorough tier: clock, ttl/tti (<= 1000 y) and every timestamp symbolic at ns resolution; values, sketch contents (table length 4), predicate masks symbolic; loops unwound 6-8 times with unwinding assertions on; "
       "arithmetic/admission/eviction lemmas: weights (u32), capacity (u64) and sketch contents fully symbolic at n <= 2-3")
_SB = ("sync cache, single-threaded: n <= 2 admitted residents + <= 2 pending operations, 4-slot map / 4-slot queue / 8-slot smallvec models; concrete capacity, weight table and time class, "
       "symbolic values, read timestamps and (update lemma) u32 weights; popularity sketch symbolic (table length 4) where no admission is executed, concrete (empty / one hot key / not enabled) where one is; "
       "bursts of <= 3 map steps followed by the queued ops and the size eviction; public-API histories of the unsync cache of <= 4 calls from the empty cache (C11)")
_OUT = ("thread schedules (every cross-thread clause); more than 3 residents / 4 map slots / 4 queued operations (the real queues hold 384); eviction and expiry batch limits (100/500) and MAX_SYNC_REPEATS beyond the "
        "unwinding bound; u64 counter saturation; sync: admission with a symbolic sketch, Inner::sync with expiry configured, bursts in which an evicting admission is followed by further operations, "
        "whole-cache drop glue; hashers other than identity / constant; key and value types other than u8 / a two-byte struct")
BOUNDS = {
    "C14": "sketch table length 1,2,4 (quick) / 8 (thorough), all table words, size, sample_size, hashes symbolic; loops unwound fully (unwinding assertions on); cache queries: table length 4, contents symbolic",
    "C08": "every query of every family (CBMC pointer, overflow, unwrap/expect/unreachable, unwinding checks); intrusive list: arbitrary well-formed lists of length 0..3 (quick) / 4 (thorough), symbolic cursor and target; " + _UB + "; " + _SB,
    "C09": "Housekeeper and schedule_write_op: all clock readings, queue lengths, flag states; model queue capacity 2; mock InnerSync; maintenance loops: unwinding bound 6 with the loop's own batch bound 2; lookups: n=1, concrete time classes, guard counter of the map model",
    "C17": "builders: all Option<u64> capacities, Option<Duration> <= 1000 y (and beyond, for the panic query), initial capacities < 2^40; size paths: all counter values",
}
OUTSIDE = {
    "C14": "table lengths > 8 in the stand-alone lemmas (index arithmetic is mask-uniform); sample_size saturation at i32::MAX (tables >= 2^28 words)",
    "C09": "real thread interleavings (deadlock / livelock between threads), the 384-slot queues, the retry sleep's real timing",
    "C17": "weigher closures other than table lookups; observable equivalence of whole histories between equivalent configurations (only construction state and policy() are compared)",
}
for _p in ("C01", "C03", "C04", "C05", "C06", "C07", "C10", "C11", "C12", "C13", "C15", "C16"):
    BOUNDS[_p] = _UB + "; " + _SB
for _p in ("C01", "C03", "C04", "C05", "C06", "C07", "C08", "C10", "C11", "C12", "C13", "C15", "C16"):
    OUTSIDE[_p] = _OUT
ASSUMPTIONS = [
    "Kani 0.68 / CBMC 6.11 / CaDiCaL and rustc's MIR are trusted",
    "CBMC memory model: sequentially consistent, malloc never fails",
    "std::collections::HashMap replaced by a 4-slot association-array model (models/kani_map.rs); K: Eq is an equivalence, Hash consistent with Eq",
    "heap shape (number of residents, LRU/write order, key identities) is concrete per query and enumerated outside the solver; all scalar data is symbolic",
    "per-property composition of step obligations into the history-level statement is the refinement argument of DESIGN.md section 6",
]
refresh_props()
