"""Registry: which solver queries (Kani harnesses) decide which property, in which tier."""
import os

MOD = {
    "sketch.rs": "common::frequency_sketch::verif_sketch",
    "deque.rs": "common::deque::verif_deque",
    "builder_utils.rs": "common::builder_utils::verif_builder_utils",
    "clock.rs": "common::time::clock::verif_clock",
    "unsync_cache.rs": "unsync::cache::verif_unsync",
    "unsync_builder.rs": "unsync::builder::verif_unsync_builder",
    "housekeeper.rs": "common::concurrent::housekeeper::verif_housekeeper",
    "concurrent_deques.rs": "common::concurrent::deques::verif_cdeques",
    "sync_base_cache.rs": "sync::base_cache::verif_sync",
    "sync_cache.rs": "sync::cache::verif_sync_cache",
    "sync_builder.rs": "sync::builder::verif_sync_builder",
}

class Harness:
    def __init__(self, file, fn, props, tier="quick", cost=5, what="", bounds="", timeout=None,
                 expect_fail=False, real_map_replay=False):
        self.file = file
        self.fn = fn
        self.name = MOD[file] + "::" + fn
        self.props = set(props)
        self.tier = tier            # "quick": both tiers; "thorough": thorough only
        self.cost = cost            # measured seconds (scheduling order, default timeout = 10x, min 120)
        self.timeout = timeout or max(120, int(cost * 10))
        self.what = what
        self.bounds = bounds
        self.expect_fail = expect_fail
        self.real_map_replay = real_map_replay

H = []
def add(*a, **k):
    H.append(Harness(*a, **k))

def harness_file(verif, name):
    for h in H:
        if h.name == name:
            return os.path.join(verif, "kani", h.file)
    raise KeyError(name)

# ------------------------------------------------------------------ C14 (+C08 arithmetic): frequency sketch
for n, c in ((1, 1), (2, 1), (4, 1), (8, 2)):
    t = "quick"
    add("sketch.rs", f"l1_n{n}", {"C14", "C08"}, t, c, "frequency(h) <= 15, arbitrary table/hash, real index_of", f"table_len={n}")
    add("sketch.rs", f"idx_n{n}", {"C14", "C08"}, t, 60 if n > 1 else 1, "real index_of(hash, depth) < table_len", f"table_len={n}")
for n, c in ((1, 1), (2, 15), (4, 20), (8, 60)):
    t = "quick" if n <= 4 else "thorough"
    add("sketch.rs", f"l2_n{n}", {"C14", "C08"}, t, c, "increment without aging: +1 saturating on the 4 counters of h, frame, size", f"table_len={n}; index_of uninterpreted")
    add("sketch.rs", f"l2b_n{n}", {"C14", "C08"}, t, c, "increment with aging = +1 then floor-halve every counter", f"table_len={n}; index_of uninterpreted")
    add("sketch.rs", f"l3_n{n}", {"C14", "C08"}, t, c, "reset floor-halves every counter and estimate", f"table_len={n}; index_of uninterpreted")
    add("sketch.rs", f"l4_n{n}", {"C14", "C08"}, t, c, "count-min lower bound preserved by one increment (inductive step, aging included)", f"table_len={n}; index_of uninterpreted")
    add("sketch.rs", f"l6_n{n}", {"C14", "C08"}, "quick", 1 + n, "reset's size arithmetic cannot overflow from any state increment can hand it", f"table_len={n}; cap in (n/2,n]")
for cap in (0, 1, 3, 5, 8):
    add("sketch.rs", f"l5_cap{cap}", {"C14", "C08"}, "quick", 2, "ensure_capacity sizing", f"cap={cap}")
add("sketch.rs", "l5_sketch_capacity_clamp", {"C14", "C08"}, "quick", 1, "sketch_capacity clamps to 128..=u32::MAX", "all u64")
add("sketch.rs", "l0_empty_sketch_is_inert", {"C14", "C08"}, "quick", 1, "disabled sketch records nothing", "")

PROPS = {}
def plan(prop, tier):
    return [h for h in H if prop in h.props and (tier == "thorough" or h.tier == "quick")]

def refresh_props():
    PROPS.clear()
    for h in H:
        for p in h.props:
            PROPS.setdefault(p, []).append(h)

BOUNDS = {
    "C14": "sketch table length 1,2,4 (quick) / 8 (thorough), all table words, size, sample_size, hashes symbolic; loops unwound fully (unwinding assertions on)",
}
OUTSIDE = {
    "C14": "table lengths > 8 in the stand-alone lemmas (index arithmetic is mask-uniform); sample_size saturation at i32::MAX (tables >= 2^28 words)",
}
ASSUMPTIONS = [
    "Kani 0.68 / CBMC 6.11 / CaDiCaL and rustc's MIR are trusted",
    "CBMC memory model: sequentially consistent, malloc never fails",
    "std::collections::HashMap replaced by a 4-slot association-array model (models/kani_map.rs); K: Eq is an equivalence, Hash consistent with Eq",
    "heap shape (number of residents, LRU/write order, key identities) is concrete per query and enumerated outside the solver; all scalar data is symbolic",
    "per-property composition of step obligations into the history-level statement is the refinement argument of DESIGN.md section 6",
]
refresh_props()
