#!/bin/bash
# Evaluate the checks against the seeded changes: apply each to /repo, run the property's quick
# check (no evidence rewrite), undo. usage: eval_seeds.sh [seed ids...]   (default: all)
cd /verif
ids="$@"; [ -z "$ids" ] && ids=$(ls seeded | grep -v RESULTS)
mkdir -p /var/tmp/seed_eval
for id in $ids; do
  P=$(python3 -c "import json;print(json.load(open('seeded/$id/meta.json'))['breaks_property'])")
  git -C /repo checkout -q -- . 
  if ! git -C /repo apply seeded/$id/patch.diff; then echo "$id APPLY-FAILED"; continue; fi
  t0=$(date +%s)
  ./check $P --tier ${TIER:-quick} --no-evidence --jobs ${JOBS:-12} > /var/tmp/seed_eval/$id.log 2>&1
  rc=$?
  git -C /repo checkout -q -- .
  v=$(grep -c "^VIOLATION" /var/tmp/seed_eval/$id.log)
  echo "$id property=$P exit=$rc violations=$v wall=$(( $(date +%s) - t0 ))s $(grep '^  harness' /var/tmp/seed_eval/$id.log | head -2 | cut -c1-200 | tr '\n' ' ')"
done
