"""Per-property claim texts for MANIFEST.json (kept next to the registry in families.py)."""
TECH = "bounded symbolic model checking of the real code (Kani/CBMC + CaDiCaL): "
CLAIMS = {
 "C14": {
  "text": "Every lemma of the estimator (bound 15, +1-saturating increment with exact frame, exact floor-halving reset, inductive count-min lower bound across aging, sizing) is decided by the SAT solver for ALL table contents, sizes and hashes at table lengths 1-8 on the compiled FrequencySketch code; the 'only get records' clause is decided on the cache operation harnesses.",
  "note": "index_of is replaced by an uninterpreted function in the two-key lemmas (sound over-approximation; the real index_of is separately shown pure and in range); table lengths > 8 are outside the bound.",
  "technique": TECH + "inductive step lemmas over arbitrary sketch states",
 },
}
NOT_APPLICABLE = {
 "C02": "quantifies over thread schedules: Kani/CBMC has no concurrency semantics for Rust and a sequentialisation needs several whole operations per query, which is beyond what CBMC holds for this code (DESIGN.md section 3, 11)",
}
for p in ["C01","C03","C04","C05","C06","C07","C08","C09","C10","C11","C12","C13","C15","C16","C17"]:
    NOT_APPLICABLE.setdefault(p, "check under construction in this session (harness families not yet registered)")
NOTES = "All checks: ./check <id> --tier quick|thorough. Exit 2 = inconclusive (time/memory cap, bound hit, vacuity, non-reproducing counterexample), never reported as success."
