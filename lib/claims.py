"""Per-property claim texts for MANIFEST.json (kept next to the registry in families.py)."""
TECH = "bounded symbolic model checking of the real code (Kani 0.68 -> CBMC 6.11 -> CaDiCaL): "
STEP = ("Each query runs ONE real operation (or internal maintenance function) of the compiled mini-moka code from a directly built state "
        "satisfying the representation invariant and compares the complete post-state with a short reference model; values, popularity-sketch "
        "contents (hence every estimate vector) and -- in the thorough tier and in the predicate lemmas -- all clock readings, durations and timestamps "
        "are solver variables. Heap shape (n <= 2-3 residents, concrete keys/weights/capacity, LRU and write order) is enumerated outside the solver. "
        "The step obligations compose to the history-level statement by the induction argument of DESIGN.md section 6 (trusted). ")
SYNC = ("Concurrent cache: decided at function level on single-threaded container models (dashmap, crossbeam-channel): lookups, the map step of insert, "
        "invalidate/invalidate_all, handle_remove, apply_reads and the update branch of handle_upsert; its admission/eviction/purge steps and Inner::sync "
        "gave no verdict within 40 GB / 20 min and are NOT claimed; no thread schedule is explored. ")
NOTE = ("Trusted: Kani/CBMC/CaDiCaL, rustc MIR; container models (4-slot maps, 4-slot queues); lock accessors of EntryInfo/AtomicInstant stubbed by lock-free twins "
        "(sequential execution); Instant::now stubbed by a symbolic clock; unsync evict_expired replaced by a no-op in tail queries and decided separately; "
        "the per-property induction/composition argument. Outside: > 3 residents, batch limits (100/500), u64 counter saturation, thread schedules, 384-slot queues.")
def c(text, technique, note=NOTE):
    return {"text": text, "technique": TECH + technique, "note": note}
CLAIMS = {
 "C01": c(STEP + SYNC + "C01 obligations: every lookup (get / contains_key / iteration filter) returns exactly the model's live value; insert replaces the value in one atomic map step; nothing but insert adds to the map.",
          "one-step refinement to a lossy map, differential against a reference model"),
 "C03": c(STEP + SYNC + "C03 obligations: no operation removes an entry the model keeps; a new key that fits is retained and evicts nothing (has_enough_capacity decided for all u64/u32 values); counters equal physical contents, so 'remaining room' is exact.",
          "one-step refinement + full-width arithmetic lemmas on the capacity predicates"),
 "C04": c(STEP + "C04 obligations (unsync; sync only for the update branch and handle_remove): resident weight <= max_capacity after every fresh insert incl. zero / oversized weights; excess of a grown update is removed by evict_lru_entries; capacity arithmetic for all values.",
          "one-step inductive invariant on resident weight + arithmetic lemmas"),
 "C05": c(STEP + SYNC + "C05: is_expired_entry_wo <=> last_modified + ttl <= now decided for ALL instants/durations at ns resolution (both caches, with the invalidate_all watermark); every lookup tail refuses an entry on/after its deadline (boundary, 1 ns before, zero and 1000-year durations); only insert/update write last_modified.",
          "time as solver variables in the predicate lemmas + frame obligations per operation"),
 "C06": c(STEP + SYNC + "C06: is_expired_entry_ao <=> last_accessed + tti <= now for all values; only insert/update/get-hit (unsync) resp. the recorded read (sync apply_reads) write last_accessed; contains_key / iteration / misses / maintenance of an update leave it untouched.",
          "time as solver variables in the predicate lemmas + frame obligations per operation"),
 "C07": c(STEP + SYNC + "C07: invalidate removes exactly the key in one atomic step and gives back its weight; invalidate_all empties the unsync cache / sets the sync watermark to now, hiding exactly the entries written at a strictly earlier reading (same-reading entries stay); invalidate_entries_if removes exactly the matching entries.",
          "one-step obligations per invalidation form; watermark comparison symbolic"),
 "C08": c("Every query of every family is also a memory-safety / overflow / panic-freedom query: CBMC checks pointer validity, double free, arithmetic overflow (debug semantics), unwrap/expect/unreachable!/assert!, slice bounds and unwinding assertions on all paths. Plus the inductive deque family: one operation of the intrusive list from an arbitrary well-formed list of length 0..4 with symbolic cursor and target (well-formedness, order, cursor, drops), and the sketch arithmetic lemmas (the reset underflow was found here).",
          "CBMC built-in safety checks on all step queries + inductive intrusive-list lemmas"),
 "C09": c("Sequential clauses only: Housekeeper::try_sync releases the maintenance flag on every path and runs sync exactly once for an arbitrary InnerSync; a queue at its flush point triggers maintenance for every clock reading (both regimes) and queue sizes >= flush points; schedule_write_op on a FULL queue runs maintenance itself, enqueues and never reaches the retry sleep (unwinding assertions = termination within the bound). Deadlock/livelock across threads is NOT decided (no schedules).",
          "flag-discipline and trigger lemmas with symbolic clock; loop termination by unwinding assertions"),
 "C10": c(STEP + SYNC + "C10: after every step entry_count / weighted_size equal the number / weight sum of what the map physically holds (found and fixed: 4 unsync defects); sync: handle_remove and the update branch of handle_upsert move the counters by exactly their own op's weights for all u32 weights, also with a stale (re-updated) shared EntryInfo.",
          "counter == physical-sum invariant asserted after every step query"),
 "C11": c("Drop-tracking element type in the deque family: unlink_and_drop / list drop release every element exactly once, other operations none; every cache step query checks that deque nodes exist iff the entry is resident (no leaked or ghost node) and CBMC checks double frees. Drop glue of whole caches and 'as soon as unreachable' for keys/values inside the caches are NOT decided (Arc/Rc drop glue of the full cache exceeded the memory cap).",
          "drop-counting lemmas on the intrusive list + node/resident bijection in step queries"),
 "C12": c(STEP + "C12: recency order after every step equals the model's (hit/update -> MRU, misses/contains/iter -> unchanged); victims of admission and of evict_lru_entries are exactly the shortest LRU prefix covering the needed weight incl. zero-weight entries and exact fits. Sync: apply_reads / applied updates refresh recency; eviction order on the sync cache is not decided.",
          "concrete LRU positions make 'prefix' syntactic; deque order compared with the model after each step"),
 "C13": c(STEP + "C13 (unsync): newcomer admitted <=> the shortest sufficient LRU prefix exists and freq(newcomer) > sum of its frequencies, with frequencies read through the real estimator just before the call and the sketch contents symbolic (every estimate vector incl. ties, colliding hasher, multi-victim prefixes, zero weights); on rejection nothing but the candidate changes. Sync admission is not decided.",
          "admission decision differential against the reference predicate over symbolic sketch contents"),
 "C14": c("Every lemma of the estimator (bound 15, +1-saturating increment with exact frame, exact floor-halving reset, inductive count-min lower bound across aging, sizing, size arithmetic) is decided for ALL table contents, sizes and hashes at table lengths 1-8 on the compiled FrequencySketch; 'only get records, exactly once' is decided on every cache step query by comparing the sketch bit-for-bit with a copy that received exactly the expected increments.",
          "inductive step lemmas over arbitrary sketch states + sketch frame check in cache queries",
          NOTE + " index_of is uninterpreted in the two-key lemmas (sound over-approximation; the real index_of is separately shown in range)."),
 "C15": c(STEP + SYNC + "C15: contains_key and iteration leave the complete state bit-identical (values, weights, timestamps, recency order, sketch, counters, queues) apart from the purge, which is decided separately to remove exactly the expired entries; sync contains_key records no read op and performs one map read.",
          "frame obligations: full post-state == pre-state"),
 "C16": c(STEP + SYNC + "C16: exhausting unsync iter() yields every live pair exactly once with its current value and no expired pair (model iterator visits each slot once: trusted); the iteration filters (is_expired_entry, both caches) agree with the deadline/watermark model. Concurrent writers are not modelled.",
          "iteration compared with the model's live set; filter predicate lemma"),
 "C17": c("For ALL Option<u64> capacities, Option<Duration> ttl/tti <= 1000 y and initial capacities the unsync builder yields policy() and private fields exactly as configured; ensure_expirations_or_panic returns for every duration <= 1000 y and never returns beyond (from +1 ns); new(n) == max_capacity(n); initial_capacity inert; no weigher => weight 1; no max_capacity => size paths dead for all counter values. The sync builder shares ensure_expirations_or_panic; its constructor is exercised by every sync query but not compared field-wise.",
          "symbolic configuration space, panic iff via expected-failure query"),
}
NOT_APPLICABLE = {
 "C02": "quantifies over thread schedules: Kani/CBMC has no concurrency semantics for Rust, and a hand sequentialisation needs several whole operations per query while a single maintenance step of the concurrent cache already exceeds 40 GB (DESIGN.md sections 3, 11, 12); the sequential ingredients (one atomic map step per call, maintenance never writes values) are decided under C01",
}
NOTES = ("All checks: ./check <id> --tier quick|thorough. Exit 2 = inconclusive (time/memory cap, bound hit, vacuity, non-reproducing counterexample), never reported as success. "
         "No hooks are committed in /repo; fix: commits b103bc6, 1aa3532, 9257e28, 58dc887, 8277078 repair the genuine defects listed in known_findings.json.")
