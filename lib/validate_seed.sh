#!/bin/bash
# Confirm a seeded change: usage validate_seed.sh <dir with patch.diff demo.diff>
# (1) patch alone: the 35 library tests pass; (2) demo alone: everything passes; (3) patch + demo: a test fails.
D=$(readlink -f "$1"); W=/tmp/seedval/$(basename $D); rm -rf $W; mkdir -p /tmp/seedval
git -C /repo worktree add -f -q $W HEAD || exit 3
export CARGO_TARGET_DIR=$W/target CARGO_NET_OFFLINE=true
cd $W
res() { grep -E "^test result" | awk '{p+=$4; f+=$6} END {printf "%d passed %d failed", p, f}'; }
git apply $D/patch.diff || { echo "PATCH-APPLY-FAILED"; exit 3; }
A=$(cargo test --offline --lib 2>&1 | res)
git apply $D/demo.diff || { echo "DEMO-APPLY-FAILED-ON-PATCH"; }
B=$(timeout 900 cargo test --offline --lib --tests 2>&1 | res)
git checkout -q -- . ; git clean -fdq -e target
git apply $D/demo.diff || { echo "DEMO-APPLY-FAILED"; exit 3; }
C=$(timeout 900 cargo test --offline --lib --tests 2>&1 | res)
cd /; git -C /repo worktree remove --force $W
echo "$(basename $D): patch_alone_lib=[$A] patch_plus_demo=[$B] demo_alone=[$C]"
