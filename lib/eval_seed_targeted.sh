#!/bin/bash
# Targeted evaluation of seeded changes: run only the queries expected to catch each seed
# (lib/seed_targets.py) through the property's own check. usage: eval_seed_targeted.sh <ids...>
cd /verif; mkdir -p /var/tmp/seed_eval
# a private copy of the repository: /repo itself is never modified by this script
SR=/var/tmp/seedrepo; rm -rf $SR; git clone -q /repo $SR
for id in "$@"; do
  read P RE <<< $(python3 -c "
import sys; sys.path.insert(0,'lib'); import seed_targets as s
t=s.T['$id']; print(t[0], t[1] or 'NONE')")
  [ "$RE" = "NONE" ] && { echo "$id property=$P expected-miss"; continue; }
  git -C $SR checkout -q -- .
  git -C $SR apply /verif/seeded/$id/patch.diff || { echo "$id APPLY-FAILED"; continue; }
  t0=$(date +%s)
  VERIF_REPO=$SR ./check $P --tier quick --no-evidence --jobs ${JOBS:-2} --only "$RE" > /var/tmp/seed_eval/$id.log 2>&1; rc=$?
  git -C $SR checkout -q -- .
  echo "$id property=$P exit=$rc wall=$(( $(date +%s) - t0 ))s $(grep -E '^VIOLATION|^  harness|inconclusive' /var/tmp/seed_eval/$id.log | head -3 | cut -c1-220 | tr '\n' ' ')"
done
