#!/bin/bash
# Targeted evaluation of every non-obsolete seeded change, P seeds in parallel (each in its own clone of /repo).
# usage: eval_all_seeds.sh [P] [ids...]      results: /var/tmp/seed_eval/<id>.log, summary lines on stdout
cd /verif; P=${1:-4}; shift
ids="$@"
[ -z "$ids" ] && ids=$(python3 - <<'PY'
import json,os
for d in sorted(os.listdir('/verif/seeded')):
    p=f'/verif/seeded/{d}/meta.json'
    if os.path.exists(p) and json.load(open(p)).get('status')!='obsolete': print(d)
PY
)
for id in $ids; do
  RE=$(python3 -c "
import sys; sys.path.insert(0,'lib'); import seed_targets as s
t=s.T.get('$id'); print((t[1] if t else None) or 'NONE')")
  echo "$id $RE"
done | grep -v " NONE$" | xargs -P $P -L 1 bash -c 'JOBS=3 bash lib/eval_seed.sh "$0" "$1" quick'
