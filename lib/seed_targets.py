# seed id -> (property, regex of the queries expected to catch it; None = known miss with reason)
T = {
 "C01a": ("C01", r"insert_upd0_n2_w_oversize$"),
 "C01b": ("C01", r"s_iterfilter0_before_watermark_no_expiry$"),
 "C03a": ("C03", r"purge_tti_on_deadline_w$"),
 "C03b": ("C03", r"l_upsert_admit_fits_unbounded$"),
 "C04a": ("C04", r"insert_new_n2_w_overcap$"),
 "C04b": ("C04", r"l_upsert_admit_fits_cap$"),
 "C05a": ("C05", r"insert_new_ttl_full$"),
 "C05b": ("C05", r"s_k1_is_expired_wo$"),
 "C06a": ("C06", r"insert_new_tti_full$"),
 "C06b": ("C06", r"l_upsert_update_n2_lru_ttl$"),
 "C07a": ("C07", r"invalidate1_ttl$"),
 "C07b": ("C07", r"s_k1_is_expired_ao$"),
 "C10a": ("C10", r"insert_new_n2_w_admit$"),
 "C10b": ("C10", r"l_upsert_update_n1$"),
 "C12a": ("C12", r"insert_upd0_n2_full$"),
 "C12b": ("C12", r"l_evict_lru_exact_n2$"),
 "C08a": ("C08", r"dq_pop_2$"),
 "C08b": ("C08", r"s_eviction_counters_never_overflow$"),
 "C09a": ("C09", r"c09_get_expired_releases_guard$"),
 "C09b": ("C09", r"l_evict_lru_terminates_on_unevictable_node$"),
 "C11a": ("C11", r"insert_new_ttl_full$"),
 "C11b": ("C11", r"invalidate_of_a_pending_insert_queues_its_removal$"),
 "C13a": ("C13", r"insert_new_n2_w_no_prefix$"),
 "C13b": ("C13", r"l_upsert_admission_n1_hot$"),
 "C14a": ("C14", r"l3_n[12]$"),
 "C14b": ("C14", r"get0_ttl_on_deadline$"),
 "C15a": ("C15", r"contains0_tti_1ns_before$"),
 "C15b": ("C15", r"s_contains0_ttl_deadline$"),
 "C16a": ("C16", r"iter_max_dur$"),
 "C16b": ("C16", r"s_iterfilter0_before_watermark_no_expiry$"),
 "C17a": ("C17", r"beyond_limit_always_panics$"),
 "C17b": ("C17", r"sync_policy_reports_exactly_the_knobs$"),
 # ---- batch 3 (c) and batch 4 (d); C09a/C12b/C13b re-targeted after the guard model / concrete-sketch admission queries
 "C01c": ("C01", r"l_purge_fresh_front_keeps_watermark$"),
 "C04c": ("C04", r"l_upsert_update_n1$"),
 "C05c": ("C05", r"l_sync_round_plain_late$|l_upsert_update_n2_lru_ttl$"),
 "C06c": ("C06", r"s_get0_tti_deadline$"),
 "C07c": ("C07", r"l_purge_fresh_front_keeps_watermark$"),
 "C08c": ("C08", r"l_burst_ins1_inv0_cap1_hot$"),
 "C09c": ("C09", r"l_upsert_admission_before_sketch_is_enabled$"),
 "C11c": ("C11", r"l_upsert_update_n1$"),
 "C12c": ("C12", r"s_admit_lemma_n2$"),
 "C13c": ("C13", r"s_admit_lemma_n2$"),
 "C14c": ("C14", r"l2_n[124]$"),
 "C15c": ("C15", r"contains_key_and_iter_are_not_maintenance_points$"),
 "C16c": ("C16", r"s_insert_update0_below_watermark_no_expiry$"),
 "C17c": ("C17", r"sync_initial_capacity_is_inert$"),
 "C01d": ("C01", r"s_get0_written_before_watermark_read_on_it$|s_contains0_written_before_watermark_read_on_it$"),
 "C03d": ("C03", r"purge_both_tti_only_w$"),
 "C04d": ("C04", r"l_sync_idle_over_capacity_evicts$"),
 "C05d": ("C05", r"sync_iter_skips_entry_that_expires_after_iter_was_created$"),
 "C06d": ("C06", r"get0_tti_on_deadline$"),
 "C07d": ("C07", r"invalidate_removes_an_idle_expired_entry$"),
 "C08d": ("C08", r"insert_new_ttl_full$"),
 "C09d": ("C09", r"schedule_write_op_retries_maintenance_until_the_queue_has_room$"),
 "C10d": ("C10", r"insert_upd0_n2_w_oversize$"),
 "C11d": ("C11", r"purge_both_tti_only_w$"),
 "C12d": ("C12", r"get_hit1_n2_tti_sym$|get_hit0_n2_ttl_sym$"),
 "C13d": ("C13", r"insert_new_n2_w_sketch_off$|admit_lemma_n1$"),
 "C14d": ("C14", r"invalidate_all_then_refill_n2$"),
 "C16d": ("C16", r"iter_both_ttl_only_expired$|k1_is_expired_entry_reads_the_entrys_own_nodes$"),
}
if __name__ == "__main__":
    import sys, re
    sys.path.insert(0, __file__.rsplit("/", 1)[0])
    import families
    for sid, t in sorted(T.items()):
        if t[1] is None:
            print(sid, t[0], "MISS-EXPECTED", t[2]); continue
        q = [h.name for h in families.plan(t[0], "quick") if re.search(t[1], h.name)]
        th = [h.name for h in families.plan(t[0], "thorough") if re.search(t[1], h.name)]
        print(sid, t[0], "quick" if q else ("thorough-only" if th else "NOT-IN-PLAN"), [x.split("::")[-1] for x in (q or th)])
