# seed id -> (property, regex of the queries expected to catch it; None = known miss with reason)
T = {
 "C01a": ("C01", r"insert_upd0_n2_w_oversize$"),
 "C01b": ("C01", r"s_iterfilter0_before_watermark_no_expiry$"),
 "C03a": ("C03", r"purge_tti_on_deadline_w$"),
 "C03b": ("C03", r"l_upsert_admit_fits_unbounded$"),
 "C04a": ("C04", r"insert_new_n2_w_overcap$"),
 "C04b": ("C04", r"l_upsert_admit_fits_cap$"),
 "C05a": ("C05", r"insert_new_ttl_full$"),
 "C05b": ("C05", r"s_k1_is_expired_wo$"),
 "C06a": ("C06", r"insert_new_tti_full$"),
 "C06b": ("C06", r"l_upsert_update_n2_lru_ttl$"),
 "C07a": ("C07", r"invalidate1_ttl$"),
 "C07b": ("C07", r"s_k1_is_expired_ao$"),
 "C10a": ("C10", r"insert_new_n2_w_admit$"),
 "C10b": ("C10", r"l_upsert_update_n1$"),
 "C12a": ("C12", r"insert_upd0_n2_full$"),
 "C12b": ("C12", r"l_evict_lru_exact_n2$"),
 "C08a": ("C08", r"dq_pop_2$"),
 "C08b": ("C08", r"s_eviction_counters_never_overflow$"),
 "C09a": ("C09", None, "self-deadlock on a DashMap shard lock: the container model has no locks and no schedules are explored"),
 "C09b": ("C09", r"l_evict_lru_terminates_on_unevictable_node$"),
 "C11a": ("C11", r"insert_new_ttl_full$"),
 "C11b": ("C11", r"invalidate_of_a_pending_insert_queues_its_removal$"),
 "C13a": ("C13", r"insert_new_n2_w_no_prefix$"),
 "C13b": ("C13", None, "needs the TinyLFU admission path of handle_upsert on the sync cache (> 40 GB)"),
 "C14a": ("C14", r"l3_n[12]$"),
 "C14b": ("C14", r"get0_ttl_on_deadline$"),
 "C15a": ("C15", r"contains0_tti_1ns_before$"),
 "C15b": ("C15", r"s_contains0_ttl_deadline$"),
 "C16a": ("C16", r"iter_max_dur$"),
 "C16b": ("C16", r"s_iterfilter0_before_watermark_no_expiry$"),
 "C17a": ("C17", r"beyond_limit_always_panics$"),
 "C17b": ("C17", r"sync_policy_reports_exactly_the_knobs$"),
}
if __name__ == "__main__":
    import sys, re
    sys.path.insert(0, __file__.rsplit("/", 1)[0])
    import families
    for sid, t in sorted(T.items()):
        if t[1] is None:
            print(sid, t[0], "MISS-EXPECTED", t[2]); continue
        q = [h.name for h in families.plan(t[0], "quick") if re.search(t[1], h.name)]
        th = [h.name for h in families.plan(t[0], "thorough") if re.search(t[1], h.name)]
        print(sid, t[0], "quick" if q else ("thorough-only" if th else "NOT-IN-PLAN"), [x.split("::")[-1] for x in (q or th)])
