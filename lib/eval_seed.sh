#!/bin/bash
# Evaluate one seeded change: eval_seed.sh <seed id> [regex of queries | ALL] [tier]
# applies seeded/<id>/patch.diff to a PRIVATE clone of /repo (never /repo itself), runs the property's own check
id=$1; RE=${2:-ALL}; TIER=${3:-quick}
P=${id:0:3}
cd /verif; mkdir -p /var/tmp/seed_eval
SR=/var/tmp/seedrepo-$id; rm -rf $SR; git clone -q /repo $SR
git -C $SR apply /verif/seeded/$id/patch.diff || { echo "$id APPLY-FAILED"; rm -rf $SR; exit 3; }
t0=$(date +%s)
if [ "$RE" = "ALL" ]; then
  VERIF_REPO=$SR ./check $P --tier $TIER --no-evidence --jobs ${JOBS:-6} > /var/tmp/seed_eval/$id.log 2>&1; rc=$?
else
  VERIF_REPO=$SR ./check $P --tier $TIER --no-evidence --jobs ${JOBS:-4} --only "$RE" > /var/tmp/seed_eval/$id.log 2>&1; rc=$?
fi
rm -rf $SR
echo "$id property=$P tier=$TIER only=$RE exit=$rc wall=$(( $(date +%s) - t0 ))s $(grep -E '^VIOLATION|^  harness|inconclusive' /var/tmp/seed_eval/$id.log | head -3 | cut -c1-260 | tr '\n' ' ')"
