"""Overlay: turn a copy of /repo's CURRENT working tree into the crate Kani compiles.

Nothing is edited in /repo.  The scratch copy gets
  * one `#[cfg(kani)] #[path = ".../kani/<f>.rs"] mod verif_*;` line appended to each module whose
    private state a harness family must reach (child modules see private fields),
  * `crate::verif_models` (container models, cfg(kani) only),
  * in unsync/cache.rs + unsync/iter.rs the *names* `HashMap` / `hash_map::Iter` re-bound to the
    model under cfg(kani) (3 textual substitutions; each must match exactly once or the run is
    INCONCLUSIVE, never a pass),
  * `.cargo/config.toml` patching dashmap / crossbeam-channel to the single-threaded models.
The library's own code is compiled unmodified otherwise: every function of mini-moka that a harness
reaches is the real one, lowered from the current source by rustc/Kani on every run.
"""
import os, re, shutil, subprocess

class OverlayError(Exception):
    pass

APPENDS = [
    # (file, module name, harness source)
    ("src/common/frequency_sketch.rs", "verif_sketch", "sketch.rs"),
    ("src/common/deque.rs", "verif_deque", "deque.rs"),
    ("src/common/builder_utils.rs", "verif_builder_utils", "builder_utils.rs"),
    ("src/common/time/clock.rs", "verif_clock", "clock.rs"),
    ("src/unsync/cache.rs", "verif_unsync", "unsync_cache.rs"),
    ("src/unsync/builder.rs", "verif_unsync_builder", "unsync_builder.rs"),
    ("src/common/concurrent/housekeeper.rs", "verif_housekeeper", "housekeeper.rs"),
    ("src/common/concurrent/atomic_time.rs", "verif_atomic_time", "atomic_time.rs"),
    ("src/common/concurrent/entry_info.rs", "verif_entry_info", "entry_info.rs"),
    ("src/common/concurrent/deques.rs", "verif_cdeques", "concurrent_deques.rs"),
    ("src/sync/base_cache.rs", "verif_sync", "sync_base_cache.rs"),
    ("src/sync/cache.rs", "verif_sync_cache", "sync_cache.rs"),
    ("src/sync/builder.rs", "verif_sync_builder", "sync_builder.rs"),
]

def _sub_once(text, pattern, repl, what, count=1):
    new, n = re.subn(pattern, repl, text)
    if n != count:
        raise OverlayError(f"overlay: pattern for {what} matched {n} times (expected {count})")
    return new

def make_scratch(repo, verif, scratch):
    """rsync the working tree (not .git, not target) and apply the overlay."""
    src = os.path.join(scratch, "src0")
    os.makedirs(src, exist_ok=True)
    subprocess.run(["rsync", "-a", "--delete", "--exclude", "/target", "--exclude", "/.git",
                    repo.rstrip("/") + "/", src + "/"], check=True)
    kdir = os.path.join(verif, "kani")
    mdir = os.path.join(verif, "models")
    for rel, mod, hf in APPENDS:
        p = os.path.join(src, rel)
        h = os.path.join(kdir, hf)
        if not os.path.exists(h):
            continue
        if not os.path.exists(p):
            raise OverlayError(f"overlay: {rel} missing in the repository")
        with open(p, "a") as f:
            f.write(f'\n#[cfg(kani)]\n#[path = "{h}"]\npub(crate) mod {mod};\n')
    # many #[kani::stub] attributes per harness need a deeper macro recursion limit
    lp = os.path.join(src, "src/lib.rs")
    body = open(lp).read()
    open(lp, "w").write('#![cfg_attr(kani, recursion_limit = "1024")]\n' + body)
    # container models
    with open(os.path.join(src, "src/lib.rs"), "a") as f:
        f.write('\n#[cfg(kani)]\npub(crate) mod verif_models {\n'
                f'    #[path = "{mdir}/kani_map.rs"]\n    pub(crate) mod kani_map;\n'
                f'    #[path = "{kdir}/common.rs"]\n    pub(crate) mod common;\n'
                '}\n')
    # HashMap -> model (names only)
    p = os.path.join(src, "src/unsync/cache.rs")
    s = open(p).read()
    s = _sub_once(s, r"collections::\{hash_map::RandomState, HashMap\}", "collections::hash_map::RandomState",
                  "HashMap import in unsync/cache.rs")
    s = _sub_once(s, r"\nuse smallvec::SmallVec;\n",
                  "\n#[cfg(kani)]\nuse crate::verif_models::kani_map::HashMap;\n#[cfg(not(kani))]\nuse std::collections::HashMap;\nuse smallvec::SmallVec;\n",
                  "smallvec import anchor in unsync/cache.rs")
    s = _sub_once(s, r"std::collections::HashMap<Rc<K>", "HashMap<Rc<K>", "CacheStore alias in unsync/cache.rs")
    open(p, "w").write(s)
    p = os.path.join(src, "src/unsync/iter.rs")
    s = open(p).read()
    s = _sub_once(s, r"type HashMapIter<'i, K, V> = std::collections::hash_map::Iter<",
                  "#[cfg(not(kani))]\ntype HashMapIter<'i, K, V> = std::collections::hash_map::Iter<'i, Rc<K>, ValueEntry<K, V>>;\n"
                  "#[cfg(kani)]\ntype HashMapIter<'i, K, V> = crate::verif_models::kani_map::Iter<",
                  "HashMapIter alias in unsync/iter.rs")
    open(p, "w").write(s)
    # third-party container models for the sync cache
    patches = []
    lock = open(os.path.join(src, "Cargo.lock")).read() if os.path.exists(os.path.join(src, "Cargo.lock")) else ""
    for crate in ("dashmap", "crossbeam-channel", "smallvec", "tagptr"):
        d = os.path.join(mdir, crate)
        if os.path.isdir(d):
            # the model must carry exactly the locked version, or cargo ignores the patch
            m = re.search(r'name = "%s"\nversion = "([^"]+)"' % re.escape(crate), lock)
            dst = os.path.join(scratch, "models", crate)
            shutil.copytree(d, dst, dirs_exist_ok=True)
            if m:
                ct = os.path.join(dst, "Cargo.toml")
                t = open(ct).read()
                t = re.sub(r'(?m)^version = "[^"]+"', f'version = "{m.group(1)}"', t, count=1)
                open(ct, "w").write(t)
            patches.append(f'{crate} = {{ path = "{dst}" }}')
    os.makedirs(os.path.join(src, ".cargo"), exist_ok=True)
    with open(os.path.join(src, ".cargo/config.toml"), "w") as f:
        f.write("[net]\noffline = true\n")
        if patches:
            f.write("\n[patch.crates-io]\n" + "\n".join(patches) + "\n")
    # allow the extra cfgs without warnings-as-noise
    p = os.path.join(src, "Cargo.toml")
    s = open(p).read()
    if '"cfg(kani)",' in s:
        s = s.replace('"cfg(kani)",', '"cfg(kani)",\n    "cfg(verif_real_map)",\n    "cfg(verif_native)",', 1)
    open(p, "w").write(s)
    return src
