#!/usr/bin/env python3
"""Runner: solver-based checking (Kani/CBMC) of mini-moka properties on /repo's current tree.

  ./check <PROPERTY> [--tier quick|thorough] [--jobs N] [--keep]
  ./check <PROPERTY> --replay <replay-file>

exit 0  property held on every query discharged (KNOWN-FINDING lines possible)
exit 1  VIOLATION property=<id> replay=<path>   (a counterexample that reproduced natively)
exit 2  inconclusive: overlay failure, time/memory cap, unwinding bound hit, vacuous harness,
        or a solver counterexample that did not reproduce natively -- never reported as success.
"""
import argparse, json, os, re, resource, shutil, subprocess, sys, tempfile, time

HERE = os.path.dirname(os.path.abspath(__file__))
VERIF = os.path.dirname(HERE)
REPO = os.environ.get("VERIF_REPO", "/repo")
SCRATCH_ROOT = os.environ.get("VERIF_SCRATCH", "/var/tmp/verif-scratch")
sys.path.insert(0, HERE)
import overlay
import families

# CBMC tracks constants in byte-array-typed heap objects only up to this many bytes (default 64):
# every mini-moka heap object larger than that (EntryInfo, Inner, sync deque nodes) otherwise looks
# symbolic to the symbolic executor and all configuration branches stay live (DESIGN.md 12).
CBMC_ARGS = ["--cbmc-args", "--max-field-sensitivity-array-size", "4096"]

TAG_RE = re.compile(r"^((?:C\d\d)(?:,C\d\d)*):")

def log(*a):
    print(*a, flush=True)

def env_offline():
    e = dict(os.environ)
    e["CARGO_NET_OFFLINE"] = "true"
    e.pop("RUSTFLAGS", None)
    return e

def limit_mem(gb):
    # (an address-space rlimit makes CBMC and the Kani driver abort spuriously: resident memory is
    #  policed by a watchdog instead, see rss_watchdog)
    def f():
        os.setsid()
    return f

def rss_watchdog(pgid, cap_gb, stop, killed):
    """Kill any cbmc process of our process group whose RSS exceeds the cap (=> inconclusive)."""
    page = os.sysconf("SC_PAGE_SIZE")
    while not stop.is_set():
        try:
            for d in os.listdir("/proc"):
                if not d.isdigit():
                    continue
                try:
                    st = open(f"/proc/{d}/stat").read()
                    rp = st.rfind(")")
                    comm = st[st.find("(") + 1:rp]
                    f = st[rp + 2:].split()
                    if comm not in ("cbmc", "kani-driver") or int(f[2]) != pgid:
                        continue
                    rss = int(f[21]) * page
                    if rss > (cap_gb if comm == "cbmc" else 28) * (1 << 30):
                        os.kill(int(d), 9)
                        killed.append((int(d), rss))
                except (OSError, ValueError, IndexError):
                    continue
        except OSError:
            pass
        stop.wait(2.0)

def run_kani(src, target, harnesses, jobs, timeout_s, mem_gb, out_json, solver=None, logf=None):
    cmd = ["cargo", "kani", "--target-dir", target, "-Z", "stubbing", "-Z", "unstable-options",
           "-j", str(jobs), "--output-format", "terse", "--harness-timeout", f"{timeout_s}s",
           "--export-json", out_json, "--exact", "--no-assertion-reach-checks"]
    if solver:
        cmd += ["--solver", solver]
    for h in harnesses:
        cmd += ["--harness", h]
    cmd += CBMC_ARGS   # must be last
    t0 = time.time()
    with open(logf, "w") as lf:
        p = subprocess.Popen(cmd, cwd=src, env=env_offline(), stdout=lf, stderr=subprocess.STDOUT,
                             preexec_fn=limit_mem(mem_gb))
        import threading
        stop, killed = threading.Event(), []
        wd = threading.Thread(target=rss_watchdog, args=(p.pid, mem_gb, stop, killed), daemon=True)
        wd.start()
        try:
            # global guard: all harnesses, in waves of `jobs`
            waves = (len(harnesses) + jobs - 1) // jobs
            p.wait(timeout=600 + waves * (timeout_s + 60))
        except subprocess.TimeoutExpired:
            try:
                os.killpg(p.pid, 9)
            except Exception:
                pass
            p.wait()
        finally:
            stop.set()
            try:
                os.killpg(p.pid, 9)   # no orphan cbmc, whatever happened to the driver
            except Exception:
                pass
        if killed:
            lf.write(f"\nverif watchdog: killed {len(killed)} cbmc process(es) above {mem_gb} GB RSS\n")
    return time.time() - t0

def parse_results(out_json, harnesses, logf):
    """-> dict harness -> record"""
    res = {h: {"status": "missing", "checks": [], "stats": {}, "duration_ms": 0} for h in harnesses}
    if not os.path.exists(out_json):
        return res, "no result file (build failure?)"
    try:
        d = json.load(open(out_json))
    except Exception as e:
        return res, f"unreadable result file: {e}"
    for r in d.get("verification_results", {}).get("results", []):
        h = r.get("harness_id")
        if h in res:
            res[h]["status"] = r.get("status")
            res[h]["checks"] = r.get("checks", [])
            res[h]["duration_ms"] = r.get("duration_ms", 0)
    for c in d.get("cbmc", []):
        h = c.get("harness_id")
        if h in res:
            res[h]["stats"] = c.get("cbmc_stats", {})
    for e in d.get("error_details", []):
        h = e.get("harness_id")
        if h in res:
            res[h]["error"] = e
    for e in d.get("property_details", []):
        h = e.get("harness_id")
        if h in res:
            res[h]["props"] = e.get("property_details", {})
    return res, None

def classify(rec, required=(), unwind_tag=None):
    """Split a harness record into violations / inconclusive reasons / covers."""
    viol, incon, covers_sat, covers_unsat = [], [], 0, 0
    st = rec["status"]
    checks = rec["checks"]
    if st == "missing":
        incon.append("no verdict (not run / crashed / compile error)")
        return viol, incon, covers_sat, covers_unsat
    if not checks and st != "Success":
        incon.append(f"no per-check results, status={st} (timeout / out of memory)")
        return viol, incon, covers_sat, covers_unsat
    for c in checks:
        s = (c.get("status") or "").upper()
        desc = (c.get("description") or "").strip().strip('"')
        cat = c.get("category") or ""
        if cat == "cover" or s in ("SATISFIED", "UNSATISFIABLE", "UNCOVERED", "COVERED"):
            if s == "SATISFIED":
                covers_sat += 1
            elif s in ("UNSATISFIABLE", "UNREACHABLE"):
                # a cover is REQUIRED when it is an "end ... reached" witness or listed for the harness
                if desc.startswith("end ") or desc in required:
                    covers_unsat += 1
                    incon.append(f"vacuity: cover '{desc}' is {s}")
            elif s == "UNDETERMINED":
                incon.append(f"cover '{desc}' undetermined")
            continue
        if s == "FAILURE" or s == "FAILED":
            if "unwinding assertion" in desc and unwind_tag:
                # a loop that the code itself bounds (batch size) ran past that bound: non-termination
                loc = c.get("location") or {}
                viol.append({"tags": [unwind_tag], "tag": unwind_tag, "description": f"{unwind_tag}: loop exceeds its own bound (does not terminate): {desc}",
                             "function": c.get("function"), "file": loc.get("file"), "line": loc.get("line"), "category": cat, "nonterm": True})
            elif "llvm.x86.sse2.pause" in desc or "spin_loop" in (c.get("function") or ""):
                # std's futex locks reach their spin hint only on a CONTENDED lock; in a sequential execution
                # the only possible holder is the calling thread itself: it waits for ever (self-deadlock)
                loc = c.get("location") or {}
                viol.append({"tags": ["C09"], "tag": "C09", "description": "C09: sequential execution spins on a contended std lock (only the calling thread itself can hold it: self-deadlock, does not terminate)",
                             "function": c.get("function"), "file": loc.get("file"), "line": loc.get("line"), "category": cat, "nonterm": True})
            elif "unwinding assertion" in desc:
                incon.append(f"unwinding bound too small: {desc} in {c.get('function')}")
            elif "VERIF-BOUND" in desc:
                incon.append(f"model bound hit: {desc}")
            else:
                m = TAG_RE.match(desc)
                loc = c.get("location") or {}
                viol.append({"tags": m.group(1).split(",") if m else ["C08"], "tag": m.group(1) if m else "C08", "description": desc,
                             "function": c.get("function"), "file": loc.get("file"),
                             "line": loc.get("line"), "category": cat,
                             # (the spin hint of std's locks is stubbed by a failing twin in the sync harnesses)
                             "nonterm": desc.startswith("C09: sequential execution spins")})
        elif s == "UNDETERMINED":
            # only meaningful if nothing failed: then it is a solver/time problem
            pass
    if viol:
        incon = [i for i in incon if not i.startswith("vacuity:")]
    if st != "Success" and not viol and not incon:
        und = sum(1 for c in checks if (c.get("status") or "").upper() == "UNDETERMINED")
        incon.append(f"status={st} with {und} undetermined checks")
    return viol, incon, covers_sat, covers_unsat

def crate_functions(recs):
    fs = set()
    for r in recs.values():
        for c in r["checks"]:
            f = c.get("function") or ""
            fl = ((c.get("location") or {}).get("file") or "")
            if fl.startswith("src/") and "verif_" not in f:
                fs.add(re.sub(r"::<.*", "", f))
    return sorted(fs)

def load_known():
    p = os.path.join(VERIF, "known_findings.json")
    if not os.path.exists(p):
        return []
    return json.load(open(p)).get("findings", [])

def match_known(known, prop, harness, v):
    for k in known:
        if k.get("status") != "known":
            continue
        if k.get("property") != prop:
            continue
        if not re.search(k.get("harness_re", ".*"), harness):
            continue
        if not re.search(k.get("check_re", ".*"), v["description"]):
            continue
        if k.get("function_re") and not re.search(k["function_re"], v.get("function") or ""):
            continue
        return k
    return None


# ------------------------------------------------------------------------------ compile repair
ITEM_START = re.compile(r"^(pub(\((crate|super)\))? )?(unsafe )?(fn|static|const|struct|enum|impl|macro_rules!|type|mod)\b|^[a-z_0-9]+!\(")

def _item_span(lines, ln):
    """(start, end) 0-based inclusive of the top-level item of a harness file that contains line `ln` (1-based)."""
    i = min(ln - 1, len(lines) - 1)
    while i > 0 and not ITEM_START.match(lines[i]):
        i -= 1
    start = i
    while start > 0 and re.match(r"^(#\[|///|#!\[)", lines[start - 1]):
        start -= 1
    depth, seen, j = 0, False, i
    while j < len(lines):
        code = re.sub(r'"(\\.|[^"\\])*"', '""', lines[j].split("//")[0])
        for ch in code:
            if ch in "{([":
                depth += 1; seen = True
            elif ch in "})]":
                depth -= 1
        if seen and depth <= 0:
            break
        if not seen and code.rstrip().endswith(";"):
            break
        j += 1
    return start, min(j, len(lines) - 1)

def _item_names(text):
    ns = set(re.findall(r"^\s*(?:pub(?:\([a-z]+\))? )?fn (\w+)", text, re.M))
    ns |= set(re.findall(r"^[a-z_0-9]+!\((\w+),", text, re.M))
    return ns

def repair_harness_sources(src, scratch, logf, removed):
    """A change to mini-moka may alter the signature of an internal function that some harness calls: the
    harness crate then does not build. Remove (in PRIVATE copies of the harness files, never in /verif)
    the top-level items rustc reports errors in, so that the queries that still compile are decided.
    Returns True when something was removed (rebuild), False when the build error is not repairable."""
    txt = open(logf, errors="replace").read()
    locs = re.findall(r"^error[^\n]*\n(?:[^\n]*\n)??\s+--> (\S+?):(\d+):\d+", txt, re.M)
    kdir = os.path.join(VERIF, "kani")
    pdir = os.path.join(scratch, "kani_priv")
    byfile = {}
    for f, ln in locs:
        f = os.path.abspath(os.path.join(src, f)) if not os.path.isabs(f) else f
        if f.startswith(kdir + os.sep) or f.startswith(pdir + os.sep):
            byfile.setdefault(os.path.basename(f), set()).add(int(ln))
    if not byfile:
        return False
    if not os.path.isdir(pdir):
        shutil.copytree(kdir, pdir)
        for root, _, files in os.walk(os.path.join(src, "src")):
            for fn in files:
                pth = os.path.join(root, fn)
                body = open(pth).read()
                if kdir in body:
                    open(pth, "w").write(body.replace(kdir + "/", pdir + "/"))
    changed = False
    for fn, lns in byfile.items():
        pth = os.path.join(pdir, fn)
        lines = open(pth).read().split("\n")
        kill = set()
        for ln in lns:
            a, b = _item_span(lines, ln)
            if b - a > 400:
                continue   # would remove a whole family's infrastructure: not a local repair
            kill |= set(range(a, b + 1))
        if kill:
            removed |= _item_names("\n".join(lines[i] for i in sorted(kill)))
            lines = [("" if i in kill else l) for i, l in enumerate(lines)]
            open(pth, "w").write("\n".join(lines))
            changed = True
    return changed

# ---------------------------------------------------------------------------------------- replay
def concrete_playback(src, target, harness, timeout_s, mem_gb, logf, want=None):
    """Ask Kani for the concrete assignment of a failing harness; returns generated test source."""
    cmd = ["cargo", "kani", "--target-dir", target, "-Z", "stubbing", "-Z", "unstable-options",
           "-Z", "concrete-playback", "--concrete-playback=print", "--harness-timeout", f"{timeout_s}s",
           "--no-assertion-reach-checks", "--harness", harness, "--exact"] + CBMC_ARGS
    import threading
    with open(logf, "w") as lf:
        p = subprocess.Popen(cmd, cwd=src, env=env_offline(), stdout=lf, stderr=subprocess.STDOUT, preexec_fn=limit_mem(mem_gb))
        stop, killed = threading.Event(), []
        # the JSON trace of a multi-million-variable formula can make the Kani driver grow past 30 GB
        wd = threading.Thread(target=rss_watchdog, args=(p.pid, mem_gb, stop, killed), daemon=True)
        wd.start()
        try:
            p.wait(timeout=timeout_s + 600)
        except subprocess.TimeoutExpired:
            pass
        finally:
            stop.set()
            try:
                os.killpg(p.pid, 9)
            except Exception:
                pass
    txt = open(logf).read()
    # one generated test per failed check and per cover: keep the tests of FAILED checks only
    tests = [t for t in re.findall(r"```\n(.*?)```", txt, re.S) if "fn kani_concrete_playback_" in t]
    if want and any("unwinding assertion" in w for w in want):
        # Kani emits no playback test for an unwinding assertion: a termination query carries a
        # cover!(true, "inputs chosen") placed after its last kani::any() and before the loop under
        # test; that cover's assignment is a complete input vector for the native run
        chosen = [t for t in tests if "inputs chosen" in t]
        return chosen[0] if chosen else None
    allt = tests
    tests = [t for t in tests if "Check for `cover`" not in t]
    if not tests:
        # Kani de-duplicates generated tests by their input vector: when the failing check fails for the
        # same assignment that satisfies a cover (typical when the failure does not depend on the symbolic
        # data at all), only the cover's test is printed. The native replay decides whether it reproduces.
        tests = [t for t in allt if "inputs chosen" in t] or allt
    if want:
        pref = [t for t in tests if any(w in t for w in want)]
        tests = pref or tests
    return tests[0] if tests else None

def native_playback(src, harness, test_src, real_map, logf, hang_is_repro=False, memcheck=False):
    """Insert the generated #[test] next to the harness and run it natively (cargo kani playback)."""
    hfile = families.harness_file(VERIF, harness)
    # (after a compile repair the modules point at the repaired private copies)
    _rep = os.path.join(os.path.dirname(src), "kani_priv", os.path.basename(hfile))
    if os.path.exists(_rep):
        hfile = _rep
    # work on a private copy of the harness file so that /verif stays untouched
    priv = os.path.join(os.path.dirname(src), "playback_" + os.path.basename(hfile))
    shutil.copy(hfile, priv)
    with open(priv, "a") as f:
        f.write("\n" + test_src + "\n")
    # redirect the #[path] of that module to the private copy
    changed = False
    for root, _, files in os.walk(os.path.join(src, "src")):
        for fn in files:
            p = os.path.join(root, fn)
            s = open(p).read()
            if f'#[path = "{hfile}"]' in s:
                open(p, "w").write(s.replace(f'#[path = "{hfile}"]', f'#[path = "{priv}"]'))
                changed = True
    if not changed:
        return None, "could not redirect harness module for playback"
    m = re.search(r"fn (kani_concrete_playback_\w+)", test_src)
    if not m:
        return None, "no playback test in Kani output"
    tname = m.group(1)
    e = env_offline()
    e["RUSTFLAGS"] = "--cfg verif_native" + (" --cfg verif_real_map" if real_map else "")
    if memcheck:
        # a use-after-free / double free usually does not crash a plain native run (the allocator hands the block
        # out again or not at all): run the same playback test under valgrind's memcheck
        e["CARGO_TARGET_X86_64_UNKNOWN_LINUX_GNU_RUNNER"] = "valgrind --error-exitcode=97 -q"
    cmd = ["cargo", "kani", "playback", "-Z", "concrete-playback", "--", tname]
    hung = False
    with open(logf, "w") as lf:
        pp = subprocess.Popen(cmd, cwd=src, env=e, stdout=lf, stderr=subprocess.STDOUT, preexec_fn=os.setsid)
        try:
            pp.wait(timeout=300 if hang_is_repro else 1800)
        except subprocess.TimeoutExpired:
            hung = True
        finally:
            try:
                os.killpg(pp.pid, 9)
            except Exception:
                pass
    txt = open(logf).read()
    # restore
    for root, _, files in os.walk(os.path.join(src, "src")):
        for fn in files:
            p = os.path.join(root, fn)
            s = open(p).read()
            if f'#[path = "{priv}"]' in s:
                open(p, "w").write(s.replace(f'#[path = "{priv}"]', f'#[path = "{hfile}"]'))
    if hang_is_repro:
        if hung and "Running" in txt:
            return True, "native replay of the harness did not terminate within 300 s (the built test binary was running)"
        if re.search(r"test result:", txt):
            return False, "native replay terminated (non-termination does not reproduce)"
        return None, "playback could not be built or run"
    if memcheck:
        mm = re.search(r"==\d+== (Invalid (?:read|write|free)[^\n]*|Mismatched free[^\n]*|Jump to the invalid address[^\n]*)", txt)
        if mm:
            return True, "valgrind memcheck on the native replay: " + mm.group(1)
        if re.search(r"test result: ok\. 1 passed", txt):
            return False, "playback test ran clean under valgrind memcheck (counterexample does not reproduce)"
        return None, "playback under valgrind could not be built or run"
    if re.search(r"test result: FAILED|panicked at", txt):
        mm = re.search(r"panicked at [^\n]*\n([^\n]*)", txt)
        return True, (mm.group(0) if mm else "test failed")
    if re.search(r"test result: ok\. 1 passed", txt):
        return False, "playback test passed natively (counterexample does not reproduce)"
    return None, "playback could not be built or run"

# ---------------------------------------------------------------------------------------- main
def main():
    ap = argparse.ArgumentParser()
    ap.add_argument("prop")
    ap.add_argument("--tier", default=os.environ.get("VERIF_TIER", "quick"), choices=["quick", "thorough"])
    ap.add_argument("--jobs", type=int, default=int(os.environ.get("VERIF_JOBS", "0")))
    ap.add_argument("--keep", action="store_true")
    ap.add_argument("--replay")
    ap.add_argument("--only", help="regex filter on harness names (development)")
    ap.add_argument("--no-evidence", action="store_true")
    a = ap.parse_args()
    prop = a.prop
    seed = int(os.environ.get("VERIF_SEED", "0"))
    t_start = time.time()
    if prop != "ALL" and prop not in families.PROPS:
        log(f"unknown or not-applicable property {prop}")
        sys.exit(2)
    os.makedirs(SCRATCH_ROOT, exist_ok=True)
    scratch = tempfile.mkdtemp(prefix=f"{prop}-", dir=SCRATCH_ROOT)
    rc = 2
    try:
        rc = run(prop, a, seed, scratch, t_start)
    finally:
        if not a.keep:
            shutil.rmtree(scratch, ignore_errors=True)
        else:
            log(f"scratch kept: {scratch}")
    sys.exit(rc)

def run(prop, a, seed, scratch, t_start):
    try:
        src = overlay.make_scratch(REPO, VERIF, scratch)
    except overlay.OverlayError as e:
        log(f"INCONCLUSIVE property={prop}: {e}")
        return 2
    target = os.path.join(scratch, "target")
    if a.replay:
        return replay_file(prop, a.replay, src, target, scratch)
    # "ALL": every registered query once (timing table lib/costs.json; development aid, no verdict for any property)
    plan = list(families.H) if prop == "ALL" else families.plan(prop, a.tier)          # list of Harness objects
    if a.only:
        plan = [h for h in plan if re.search(a.only, h.name)]
    # VERIF_SEED only permutes scheduling order (no random choices decide anything)
    if seed:
        import random
        random.Random(seed).shuffle(plan)
    else:
        plan.sort(key=lambda h: -h.cost)
    names = [h.name for h in plan]
    byname = {h.name: h for h in plan}
    ncpu = os.cpu_count() or 4
    jobs = a.jobs or max(2, min(ncpu - 2, 14))
    tmo = max(h.timeout for h in plan) if plan else 60
    # quick: no single query may take more than 10 min (the whole check should stay well under 15);
    # thorough: 4x the registered allowance, at most 1 h per query
    tmo = min(tmo, 600) if a.tier == "quick" else min(tmo * 4, 3600)
    if os.environ.get("VERIF_TIMEOUT"):
        tmo = int(os.environ["VERIF_TIMEOUT"])   # development aid
    log(f"[{prop}] tier={a.tier} harnesses={len(names)} jobs={jobs} per-harness timeout={tmo}s")
    # memory-aware scheduling: the sync-cache queries need 8-14 GB each, the others < 6 GB
    heavy = [h for h in names if byname[h].cost >= 120]
    light = [h for h in names if byname[h].cost < 120]
    hjobs = max(1, min(jobs, 4 if a.tier == "quick" else 3))
    mem_gb = 20 if a.tier == "quick" else 40
    recs, err, wall = {}, None, 0.0
    removed_items = set()
    for gi, (grp, j) in enumerate(((light, jobs), (heavy, hjobs))):
        if not grp:
            continue
        out_json = os.path.join(scratch, f"result{gi}.json")
        logf = os.path.join(scratch, f"kani{gi}.log")
        log(f"[{prop}]   group {gi}: {len(grp)} queries, {j} parallel")
        wall += run_kani(src, target, grp, j, tmo, mem_gb, out_json, logf=logf)
        r, e = parse_results(out_json, grp, logf)
        rounds = 0
        while e and rounds < 8 and repair_harness_sources(src, scratch, logf, removed_items):
            # the harness crate does not build against the current sources: drop the items rustc rejects and retry
            rounds += 1
            grp = [h for h in grp if byname[h].fn not in removed_items]
            log(f"[{prop}]   build failed in harness code; removed {len(removed_items)} item(s), retrying with {len(grp)} queries")
            if not grp:
                break
            if os.path.exists(out_json):
                os.remove(out_json)
            wall += run_kani(src, target, grp, j, tmo, mem_gb, out_json, logf=logf)
            r, e = parse_results(out_json, grp, logf)
        recs.update(r)
        if e and not err:
            err = e
            last_log = logf
    if err:
        tail = "".join(open(last_log).readlines()[-40:])
        log(tail)
        log(f"INCONCLUSIVE property={prop}: {err}")
        write_evidence(prop, a, seed, recs, byname, [], [], [err], t_start, [])
        return 2
    solver_s = symex_s = 0.0
    vccs = 0
    viols, known_hits, incon, other_notes = [], [], [], []
    known = load_known()
    nontrivial = 0
    dropped = [h for h in names if byname[h].fn in removed_items or h not in recs]
    for h in dropped:
        incon.append(f"{h}: harness does not compile against the current sources (an internal signature it calls changed): not decided")
    names = [h for h in names if h not in dropped]
    for h in names:
        r = recs[h]
        v, inc, cs, cu = classify(r, byname[h].required, byname[h].unwind_tag)
        stt = r["stats"] or {}
        solver_s += stt.get("runtime_solver_s", 0) or 0
        symex_s += stt.get("runtime_symex_s", 0) or 0
        vccs += stt.get("vccs_generated", 0) or 0
        af = byname[h].allowed_fail
        if af:
            hit = [x for x in v if re.search(af, x["description"])]
            v = [x for x in v if not re.search(af, x["description"])]
            if not hit:
                incon.append(f"{h}: the documented panic ({af}) was not reached")
            if r["status"] != "Success" and not v:
                inc = [i for i in inc if not i.startswith("vacuity:")]
        mine = [x for x in v if prop in x["tags"]]
        others = [x for x in v if prop not in x["tags"]]
        expect_fail = byname[h].expect_fail
        if expect_fail:
            # vacuity twin: its final assert(false) MUST be reported as failed
            if not any("VACUITY-TWIN" in x["description"] for x in v):
                incon.append(f"{h}: vacuity twin did not fail (harness does not reach its end)")
            else:
                nontrivial += 1
            continue
        for x in mine:
            k = match_known(known, prop, h, x)
            (known_hits if k else viols).append((h, x, k))
        for x in others:
            other_notes.append((h, x))
        for i in inc:
            incon.append(f"{h}: {i}")
        if not inc and cs > 0 and cu == 0 and r["status"] is not None:
            nontrivial += 1
        r["_summary"] = {"viol": len(mine), "other": len(others), "covers": cs}
    for h, x, k in known_hits:
        pass
    printed = set()
    for h, x, k in known_hits:
        key = k.get("id")
        if key in printed:
            continue
        printed.add(key)
        log(f"KNOWN-FINDING: property={prop} {k.get('what')} [{k.get('id')}]")
    for h, x in other_notes[:20]:
        log(f"note: while checking {prop}, harness {h.split('::')[-1]} also failed a {x['tag']}-class check: {x['description']} ({x['function']})")
    rc = 0
    replays = []
    if viols:
        # replay each distinct failing harness (cheapest first), report those that reproduce
        seen = set()
        for h, x, _ in sorted(viols, key=lambda t: byname[t[0]].cost):
            if h in seen:
                continue
            seen.add(h)
            ok, path, why = replay_violation(prop, h, [y for (hh, y, _) in viols if hh == h], src, target, scratch, byname[h])
            replays.append({"harness": h, "reproduced": ok, "replay": path, "detail": why})
            if ok:
                log(f"VIOLATION property={prop} replay={path}")
                log(f"  harness {h}: " + "; ".join(sorted({y['description'] for (hh, y, _) in viols if hh == h}))[:600])
                rc = 1
            else:
                incon.append(f"{h}: solver counterexample not confirmed natively: {why}")
            if len(seen) >= 3 and rc == 1:
                break
    if rc == 0 and incon:
        for i in incon[:30]:
            log("inconclusive: " + i)
        rc = 2
    write_evidence(prop, a, seed, recs, byname, viols, known_hits, incon, t_start, replays,
                   extra={"solver_s": round(solver_s, 2), "symex_s": round(symex_s, 2), "vccs": vccs,
                          "kani_wall_s": round(wall, 1), "nontrivial": nontrivial,
                          "functions": crate_functions(recs)})
    if prop == "ALL":
        costs = {h: {"s": round(recs[h]["duration_ms"] / 1000.0, 1), "status": recs[h]["status"],
                     "solver_s": (recs[h]["stats"] or {}).get("runtime_solver_s"), "symex_s": (recs[h]["stats"] or {}).get("runtime_symex_s")} for h in names}
        json.dump(costs, open(os.environ.get("VERIF_COSTS_OUT", os.path.join(VERIF, "lib", "costs_measured.json")), "w"), indent=0, sort_keys=True)
    ok_n = sum(1 for h in names if recs[h]["status"] == "Success")
    log(f"[{prop}] {ok_n}/{len(names)} queries SUCCESS, {len(viols)} violating checks, {len(known_hits)} known-finding hits, "
        f"{len(incon)} inconclusive; solver {solver_s:.1f}s symex {symex_s:.1f}s wall {time.time()-t_start:.0f}s -> exit {rc}")
    return rc

def replay_violation(prop, h, vs, src, target, scratch, hobj):
    rdir = os.path.join(VERIF, "replays", prop)
    os.makedirs(rdir, exist_ok=True)
    short = h.split("::")[-1]
    path = os.path.join(rdir, short + ".json")
    info = {"property": prop, "harness": h, "failed_checks": vs, "how_to_replay": f"./check {prop} --replay {path}"}
    try:
        test_src = concrete_playback(src, target, h, hobj.timeout * 4, 48, os.path.join(scratch, f"cp_{short}.log"),
                                     want=[("unwinding assertion" if (y.get("nonterm") and not y["description"].startswith("C09: sequential execution spins")) else y["description"][:60]) for y in vs])
    except Exception as e:
        test_src = None
        info["playback_error"] = str(e)
    if not test_src:
        json.dump(info, open(path, "w"), indent=1)
        return False, path, "Kani produced no concrete assignment"
    info["kani_concrete_playback_test"] = test_src
    ok, why = native_playback(src, h, test_src, False, os.path.join(scratch, f"pb_{short}.log"), hang_is_repro=bool(hobj.unwind_tag) or any(y.get("nonterm") for y in vs))
    info["native_model_containers"] = {"reproduced": ok, "detail": why}
    if ok is False and any(re.search(r"dereference failure|double free|free argument|deallocated|dead object|invalid pointer", y["description"]) for y in vs):
        ok, why = native_playback(src, h, test_src, False, os.path.join(scratch, f"pbv_{short}.log"), memcheck=True)
        info["native_memcheck"] = {"reproduced": ok, "detail": why}
    ok2 = None
    if ok and hobj.real_map_replay:
        ok2, why2 = native_playback(src, h, test_src, True, os.path.join(scratch, f"pbr_{short}.log"))
        info["native_real_containers"] = {"reproduced": ok2, "detail": why2}
        if ok2 is False:
            ok, why = False, "reproduces with the container model but not with std::HashMap: " + why2
    json.dump(info, open(path, "w"), indent=1)
    return bool(ok), path, why

def replay_file(prop, path, src, target, scratch):
    info = json.load(open(path))
    h = info["harness"]
    ts = info.get("kani_concrete_playback_test")
    if not ts:
        log("replay file has no concrete assignment")
        return 2
    ok, why = native_playback(src, h, ts, False, os.path.join(scratch, "pb.log"))
    log(f"replay of {h}: reproduced={ok} ({why})")
    if ok:
        log(f"VIOLATION property={prop} replay={path}")
        return 1
    return 0 if ok is False else 2

def write_evidence(prop, a, seed, recs, byname, viols, known_hits, incon, t_start, replays, extra=None):
    if a.no_evidence or a.only:
        return
    extra = extra or {}
    names = list(recs.keys())
    samples = []
    for h in names[:]:
        r = recs[h]
        hb = byname.get(h)
        samples.append({
            "query": h, "what": hb.what if hb else "", "bounds": hb.bounds if hb else "",
            "status": r["status"], "checks": len(r["checks"]),
            "covers_satisfied": sum(1 for c in r["checks"] if (c.get("status") or "").upper() == "SATISFIED"),
            "vccs": (r["stats"] or {}).get("vccs_generated"), "solver_s": (r["stats"] or {}).get("runtime_solver_s"),
            "symex_s": (r["stats"] or {}).get("runtime_symex_s"), "duration_ms": r["duration_ms"]})
    ev = {
        "property_id": prop,
        "tier": a.tier,
        "seed": seed,
        "level": "model_checking",
        "coverage": {
            "evaluations": len(names),
            "distinct_nontrivial": extra.get("nontrivial", 0),
            "rule": "one evaluation = one solver query (Kani harness = real code from one concrete heap shape, all scalar data symbolic, "
                    "unwinding assertions on); non-trivial = verdict reached AND every kani::cover! witness of the harness SATISFIED "
                    "(or, for a vacuity twin, its final assert(false) reported FAILED); harness names are distinct by construction",
            "samples": samples,
            "exhaustive": False,
            "engine": "Kani 0.68.0 -> CBMC 6.11.0 -> CaDiCaL (bit-precise bounded model checking of the compiled MIR)",
            "functions_encoded": extra.get("functions", []),
            "queries_discharged": sum(1 for h in names if recs[h]["status"] == "Success"),
            "solver_seconds": extra.get("solver_s"), "symex_seconds": extra.get("symex_s"), "vccs_generated": extra.get("vccs"),
            "bounds": families.BOUNDS.get(prop, ""),
            "outside_bounds": families.OUTSIDE.get(prop, ""),
            "known_findings_hit": sorted({k.get("id") for (_, _, k) in known_hits}),
            "inconclusive": incon[:50],
            "replays": replays,
        },
        "assumptions": families.ASSUMPTIONS,
        "wall_s": round(time.time() - t_start, 1),
        "violations": len({h for (h, _, _) in viols}) if viols else 0,
    }
    os.makedirs(os.path.join(VERIF, "evidence"), exist_ok=True)
    json.dump(ev, open(os.path.join(VERIF, "evidence", f"{prop}.json"), "w"), indent=1)

if __name__ == "__main__":
    main()
