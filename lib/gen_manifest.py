#!/usr/bin/env python3
"""Regenerates MANIFEST.json from lib/families.py + lib/claims.py (single source of truth)."""
import json, os, sys
HERE = os.path.dirname(os.path.abspath(__file__))
sys.path.insert(0, HERE)
import families, claims

def main():
    checks = []
    for pid in sorted(claims.CLAIMS):
        c = claims.CLAIMS[pid]
        if pid not in families.PROPS:
            continue
        checks.append({
            "property_id": pid,
            "quick_cmd": f"./check {pid} --tier quick",
            "thorough_cmd": f"./check {pid} --tier thorough",
            "evidence_file": f"/verif/evidence/{pid}.json",
            "replay_cmd_template": f"./check {pid} --replay {{path}}",
            "engine": "kani-cbmc",
            "level_claimed": {"category": "model_checking", "text": c["text"], "design_ref": c.get("ref", "DESIGN.md section 6")},
            "level_note": c["note"],
            "technique": c["technique"],
        })
    na = [{"property_id": p, "reason": r} for p, r in sorted(claims.NOT_APPLICABLE.items()) if p not in {c["property_id"] for c in checks}]
    m = {
        "version": 1,
        "setup_cmd": "sh ./setup.sh",
        "hooks": {
            "guard": "kani",
            "enable": "no source hooks are committed in /repo: each check copies /repo's working tree to a scratch directory and appends cfg(kani)-guarded `mod` lines (harness modules under /verif/kani) there; `cargo kani` sets cfg(kani)",
            "baseline_off_cmd": "cd /repo && cargo test --workspace --no-fail-fast --offline",
            "source_commits": [],
            "add_only": True,
        },
        "engines": [{"name": "kani-cbmc", "path": "/verif/lib/vk.py", "serves_properties": [c["property_id"] for c in checks],
                     "kind_free_text": "Kani 0.68 (rustc MIR -> goto) + CBMC 6.11 bounded model checker + CaDiCaL; harnesses in /verif/kani, container models in /verif/models"}],
        "checks": checks,
        "not_applicable": na,
        "notes": claims.NOTES,
    }
    json.dump(m, open(os.path.join(os.path.dirname(HERE), "MANIFEST.json"), "w"), indent=1)
    print(f"MANIFEST.json: {len(checks)} checks, {len(na)} not applicable")

main()
