#!/bin/sh
# Offline setup: nothing to build ahead of time (harnesses are compiled by cargo kani inside each check).
# Sanity: tools present.
set -e
command -v cargo >/dev/null
cargo kani --version
command -v cbmc >/dev/null
python3 -c "import json" 
mkdir -p /var/tmp/verif-scratch
echo "setup ok"
