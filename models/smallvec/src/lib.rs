//! MODEL of `smallvec::SmallVec` for bounded model checking of mini-moka.
//!
//! * storage = the inline array only; a push beyond the inline capacity panics with "VERIF-BOUND"
//!   (reported as a bound hit, never as a violation). The real SmallVec spills to the heap there;
//!   mini-moka's victim lists (inline 8 / 4) never get that long with the <= 4 residents the harnesses use.
//! * elements must be `Copy` (mini-moka stores `NonNull<DeqNode<..>>` only): no drop glue, no loops.
//! * same observable sequence semantics: push appends, iteration / indexing in insertion order.
#![allow(clippy::all)]
use std::mem::MaybeUninit;

pub unsafe trait Array {
    type Item;
    const CAP: usize;
}
unsafe impl<T, const N: usize> Array for [T; N] {
    type Item = T;
    const CAP: usize = N;
}

pub struct SmallVec<A: Array> {
    len: usize,
    data: MaybeUninit<A>,
}

impl<A: Array> Default for SmallVec<A> {
    #[inline]
    fn default() -> Self { Self::new() }
}

impl<A: Array> SmallVec<A> {
    #[inline]
    pub fn new() -> Self { SmallVec { len: 0, data: MaybeUninit::uninit() } }
    #[inline]
    fn ptr(&self) -> *const A::Item { self.data.as_ptr() as *const A::Item }
    #[inline]
    fn ptr_mut(&mut self) -> *mut A::Item { self.data.as_mut_ptr() as *mut A::Item }
    #[inline]
    pub fn len(&self) -> usize { self.len }
    #[inline]
    pub fn is_empty(&self) -> bool { self.len == 0 }
    #[inline]
    pub fn push(&mut self, v: A::Item)
    where
        A::Item: Copy,
    {
        if self.len >= A::CAP {
            panic!("VERIF-BOUND: SmallVec model capacity exceeded (the real SmallVec would spill to the heap)");
        }
        unsafe { self.ptr_mut().add(self.len).write(v) };
        self.len += 1;
    }
    #[inline]
    pub fn as_slice(&self) -> &[A::Item] { unsafe { std::slice::from_raw_parts(self.ptr(), self.len) } }
    #[inline]
    pub fn iter(&self) -> std::slice::Iter<'_, A::Item> { self.as_slice().iter() }
}

impl<A: Array> std::ops::Index<usize> for SmallVec<A> {
    type Output = A::Item;
    #[inline]
    fn index(&self, i: usize) -> &A::Item {
        assert!(i < self.len, "SmallVec model: index out of bounds");
        unsafe { &*self.ptr().add(i) }
    }
}

pub struct IntoIter<A: Array> {
    v: SmallVec<A>,
    pos: usize,
}
impl<A: Array> Iterator for IntoIter<A>
where
    A::Item: Copy,
{
    type Item = A::Item;
    #[inline]
    fn next(&mut self) -> Option<A::Item> {
        if self.pos < self.v.len {
            let x = unsafe { *self.v.ptr().add(self.pos) };
            self.pos += 1;
            Some(x)
        } else {
            None
        }
    }
}
impl<A: Array> IntoIterator for SmallVec<A>
where
    A::Item: Copy,
{
    type Item = A::Item;
    type IntoIter = IntoIter<A>;
    #[inline]
    fn into_iter(self) -> IntoIter<A> { IntoIter { v: self, pos: 0 } }
}
impl<'a, A: Array> IntoIterator for &'a SmallVec<A> {
    type Item = &'a A::Item;
    type IntoIter = std::slice::Iter<'a, A::Item>;
    #[inline]
    fn into_iter(self) -> Self::IntoIter { self.as_slice().iter() }
}
