//! MODEL of `dashmap::DashMap` for bounded model checking of mini-moka's sync cache.
//!
//! * 4 slots, loop-free lookup; a 5th distinct key panics with "VERIF-BOUND" (reported as a bound
//!   hit, never as a violation).
//! * single-threaded semantics, every operation is one atomic step. Shard locks are modelled only as a
//!   count of outstanding guards (`Ref` from `get`, `RefMut` from `entry().or_insert_with()`): taking a
//!   shard lock for WRITING (insert / remove / remove_if / entry) while the same thread still holds a
//!   guard of this map, or any lock while it holds a write guard, is a self-deadlock on the real
//!   DashMap and fails a "C09:" assertion here. Guards held by iterators are not counted (the
//!   property excludes threads that write while holding an iterator).
//! * counts map reads / writes / removals (`verif_stats`) for the atomic-step lemmas.
//! * iteration visits every occupied slot exactly once in slot order (real DashMap: arbitrary order).
//! Assumes `K: Eq` is an equivalence and `Hash` is consistent with it (the model never hashes).
#![allow(clippy::all)]
use std::borrow::Borrow;
use std::cell::{Cell, UnsafeCell};
use std::hash::{BuildHasher, Hash};

pub const SLOTS: usize = 4;

// ---- outstanding guards (all maps together: mini-moka has one map per cache, one cache per harness)
static mut GUARDS_R: u32 = 0;
static mut GUARDS_W: u32 = 0;
/// (read guards, write guards) currently alive
pub fn verif_guards() -> (u32, u32) { unsafe { (GUARDS_R, GUARDS_W) } }
pub struct Guard(bool);
impl Guard {
    fn read() -> Guard { unsafe { GUARDS_R += 1; } Guard(false) }
    fn write() -> Guard { unsafe { GUARDS_W += 1; } Guard(true) }
}
impl Drop for Guard {
    fn drop(&mut self) { unsafe { if self.0 { GUARDS_W -= 1; } else { GUARDS_R -= 1; } } }
}
#[inline]
fn lock_for_read() {
    assert!(unsafe { GUARDS_W } == 0, "C09: map read while the calling thread holds a write guard of the map (self-deadlock on the DashMap shard lock)");
}
#[inline]
fn lock_for_write() {
    assert!(unsafe { GUARDS_W == 0 && GUARDS_R == 0 }, "C09: map write while the calling thread still holds a guard of the map (self-deadlock on the DashMap shard lock)");
}

pub struct DashMap<K, V, S = std::collections::hash_map::RandomState> {
    slots: UnsafeCell<[Option<(K, V)>; SLOTS]>,
    #[allow(dead_code)]
    hasher: S,
    reads: Cell<u32>,
    writes: Cell<u32>,
    removes: Cell<u32>,
}

// the real DashMap is Send + Sync; the model is only ever used sequentially
unsafe impl<K: Send, V: Send, S: Send> Send for DashMap<K, V, S> {}
unsafe impl<K: Send + Sync, V: Send + Sync, S: Send + Sync> Sync for DashMap<K, V, S> {}

impl<K: Eq + Hash, V, S: BuildHasher + Clone> DashMap<K, V, S> {
    pub fn with_capacity_and_hasher(_capacity: usize, hasher: S) -> Self {
        Self {
            slots: UnsafeCell::new([None, None, None, None]),
            hasher,
            reads: Cell::new(0),
            writes: Cell::new(0),
            removes: Cell::new(0),
        }
    }

    #[inline]
    fn s(&self) -> &mut [Option<(K, V)>; SLOTS] {
        unsafe { &mut *self.slots.get() }
    }

    #[inline]
    fn find<Q: ?Sized + Eq>(&self, q: &Q) -> Option<usize>
    where
        K: Borrow<Q>,
    {
        let s = self.s();
        if let Some((k, _)) = &s[0] { if k.borrow() == q { return Some(0); } }
        if let Some((k, _)) = &s[1] { if k.borrow() == q { return Some(1); } }
        if let Some((k, _)) = &s[2] { if k.borrow() == q { return Some(2); } }
        if let Some((k, _)) = &s[3] { if k.borrow() == q { return Some(3); } }
        None
    }

    pub fn get<Q: ?Sized + Eq + Hash>(&self, key: &Q) -> Option<mapref::one::Ref<'_, K, V>>
    where
        K: Borrow<Q>,
    {
        lock_for_read();
        self.reads.set(self.reads.get() + 1);
        match self.find(key) {
            Some(i) => self.s()[i].as_ref().map(|(k, v)| mapref::one::Ref { k, v, _g: Guard::read() }),
            None => None,
        }
    }

    pub fn insert(&self, key: K, value: V) -> Option<V> {
        lock_for_write();
        self.writes.set(self.writes.get() + 1);
        if let Some(i) = self.find(&key) {
            let slot = self.s()[i].as_mut().unwrap();
            return Some(std::mem::replace(&mut slot.1, value));
        }
        let i = self.free_slot();
        self.s()[i] = Some((key, value));
        None
    }

    fn free_slot(&self) -> usize {
        let s = self.s();
        if s[0].is_none() { 0 } else if s[1].is_none() { 1 } else if s[2].is_none() { 2 } else if s[3].is_none() { 3 }
        else { panic!("VERIF-BOUND: model capacity exceeded (more than 4 keys)") }
    }

    pub fn entry(&self, key: K) -> mapref::entry::Entry<'_, K, V, S> {
        lock_for_write();
        let slot = self.find(&key);
        mapref::entry::Entry { map: self, key, slot }
    }

    pub fn remove<Q: ?Sized + Eq + Hash>(&self, key: &Q) -> Option<(K, V)>
    where
        K: Borrow<Q>,
    {
        lock_for_write();
        self.removes.set(self.removes.get() + 1);
        match self.find(key) {
            Some(i) => self.s()[i].take(),
            None => None,
        }
    }

    pub fn remove_if<Q: ?Sized + Eq + Hash>(&self, key: &Q, f: impl FnOnce(&K, &V) -> bool) -> Option<(K, V)>
    where
        K: Borrow<Q>,
    {
        lock_for_write();
        self.removes.set(self.removes.get() + 1);
        match self.find(key) {
            Some(i) => {
                let hit = { let (k, v) = self.s()[i].as_ref().unwrap(); f(k, v) };
                if hit { self.s()[i].take() } else { None }
            }
            None => None,
        }
    }

    pub fn iter(&self) -> iter::Iter<'_, K, V, S> {
        iter::Iter { map: self, pos: 0 }
    }

    pub fn len(&self) -> usize {
        let s = self.s();
        s[0].is_some() as usize + s[1].is_some() as usize + s[2].is_some() as usize + s[3].is_some() as usize
    }

    pub fn is_empty(&self) -> bool {
        self.len() == 0
    }

    /// (reads, value writes, removals) performed through this map so far
    pub fn verif_stats(&self) -> (u32, u32, u32) {
        (self.reads.get(), self.writes.get(), self.removes.get())
    }
    pub fn verif_reset_stats(&self) {
        self.reads.set(0);
        self.writes.set(0);
        self.removes.set(0);
    }
}

pub mod mapref {
    pub mod one {
        pub struct Ref<'a, K, V> {
            pub(crate) k: &'a K,
            pub(crate) v: &'a V,
            pub(crate) _g: crate::Guard,
        }
        impl<'a, K, V> Ref<'a, K, V> {
            pub fn key(&self) -> &K { self.k }
            pub fn value(&self) -> &V { self.v }
            pub fn pair(&self) -> (&K, &V) { (self.k, self.v) }
        }
        impl<'a, K, V> std::ops::Deref for Ref<'a, K, V> {
            type Target = V;
            fn deref(&self) -> &V { self.v }
        }
        pub struct RefMut<'a, K, V> {
            pub(crate) k: &'a K,
            pub(crate) v: &'a mut V,
            pub(crate) _g: crate::Guard,
        }
        impl<'a, K, V> RefMut<'a, K, V> {
            pub fn key(&self) -> &K { self.k }
            pub fn value(&self) -> &V { self.v }
            pub fn value_mut(&mut self) -> &mut V { self.v }
        }
        impl<'a, K, V> std::ops::Deref for RefMut<'a, K, V> {
            type Target = V;
            fn deref(&self) -> &V { self.v }
        }
        impl<'a, K, V> std::ops::DerefMut for RefMut<'a, K, V> {
            fn deref_mut(&mut self) -> &mut V { self.v }
        }
    }
    pub mod multiple {
        pub struct RefMulti<'a, K, V> {
            pub(crate) k: &'a K,
            pub(crate) v: &'a V,
        }
        unsafe impl<'a, K: Sync, V: Sync> Send for RefMulti<'a, K, V> {}
        impl<'a, K, V> RefMulti<'a, K, V> {
            pub fn key(&self) -> &K { self.k }
            pub fn value(&self) -> &V { self.v }
            pub fn pair(&self) -> (&K, &V) { (self.k, self.v) }
        }
        impl<'a, K, V> std::ops::Deref for RefMulti<'a, K, V> {
            type Target = V;
            fn deref(&self) -> &V { self.v }
        }
    }
    pub mod entry {
        use crate::DashMap;
        use std::hash::{BuildHasher, Hash};
        pub struct Entry<'a, K, V, S> {
            pub(crate) map: &'a DashMap<K, V, S>,
            pub(crate) key: K,
            pub(crate) slot: Option<usize>,
        }
        impl<'a, K: Eq + Hash, V, S: BuildHasher + Clone> Entry<'a, K, V, S> {
            /// occupied: apply `f` to the value in place (ONE write step); vacant: nothing
            pub fn and_modify(self, f: impl FnOnce(&mut V)) -> Self {
                if let Some(i) = self.slot {
                    self.map.writes.set(self.map.writes.get() + 1);
                    let slot = self.map.s()[i].as_mut().unwrap();
                    f(&mut slot.1);
                }
                self
            }
            /// vacant: insert `f()` (ONE write step); occupied: keep
            pub fn or_insert_with(self, f: impl FnOnce() -> V) -> super::one::RefMut<'a, K, V> {
                let i = match self.slot {
                    Some(i) => i,
                    None => {
                        self.map.writes.set(self.map.writes.get() + 1);
                        let i = self.map.free_slot();
                        self.map.s()[i] = Some((self.key, f()));
                        i
                    }
                };
                let slot = self.map.s()[i].as_mut().unwrap();
                super::one::RefMut { k: &slot.0, v: &mut slot.1, _g: crate::Guard::write() }
            }
        }
    }
}

pub mod iter {
    use crate::mapref::multiple::RefMulti;
    use crate::DashMap;
    use std::hash::{BuildHasher, Hash};
    pub struct Iter<'a, K, V, S = std::collections::hash_map::RandomState> {
        pub(crate) map: &'a DashMap<K, V, S>,
        pub(crate) pos: usize,
    }
    unsafe impl<'a, K: Send + Sync, V: Send + Sync, S: Send + Sync> Send for Iter<'a, K, V, S> {}
    unsafe impl<'a, K: Send + Sync, V: Send + Sync, S: Send + Sync> Sync for Iter<'a, K, V, S> {}
    impl<'a, K: Eq + Hash, V, S: BuildHasher + Clone> Iterator for Iter<'a, K, V, S> {
        type Item = RefMulti<'a, K, V>;
        fn next(&mut self) -> Option<Self::Item> {
            // loop-free on purpose
            let s: &'a [Option<(K, V)>; crate::SLOTS] = unsafe { &*self.map.slots.get() };
            if self.pos == 0 { self.pos = 1; if let Some((k, v)) = &s[0] { return Some(RefMulti { k, v }); } }
            if self.pos == 1 { self.pos = 2; if let Some((k, v)) = &s[1] { return Some(RefMulti { k, v }); } }
            if self.pos == 2 { self.pos = 3; if let Some((k, v)) = &s[2] { return Some(RefMulti { k, v }); } }
            if self.pos == 3 { self.pos = 4; if let Some((k, v)) = &s[3] { return Some(RefMulti { k, v }); } }
            None
        }
    }
}
