// Loop-free association-array model of std::collections::HashMap, used ONLY under cfg(kani)
// (hashbrown's SIMD group probing does not bottom out under CBMC: no verdict in 15 min for a
// concrete insert+get). 4 slots; a 5th distinct key panics with "model capacity exceeded",
// which the runner reports as a BOUND hit (inconclusive), never as a violation.
//
// Trusted assumptions (part of every claim made with this model): `K: Eq` is an equivalence and
// `Hash` is consistent with it (the model never hashes); iteration visits every occupied slot
// exactly once, in slot order (std promises "arbitrary order": harnesses vary slot placement).
//
// With `--cfg verif_real_map` (used by the native replay) the names resolve to the real std types.

#[cfg(verif_real_map)]
pub(crate) use std::collections::hash_map::Iter;
#[cfg(verif_real_map)]
pub(crate) use std::collections::HashMap;

#[cfg(not(verif_real_map))]
pub(crate) use model::{HashMap, Iter};

#[cfg(not(verif_real_map))]
mod model {
    use std::borrow::Borrow;

    pub(crate) const SLOTS: usize = 4;

    pub(crate) struct HashMap<K, V, S> {
        slots: [Option<(K, V)>; SLOTS],
        #[allow(dead_code)]
        hasher: S,
    }

    impl<K: Eq, V, S> HashMap<K, V, S> {
        pub(crate) fn with_capacity_and_hasher(_cap: usize, hasher: S) -> Self {
            Self { slots: [None, None, None, None], hasher }
        }

        #[inline]
        fn find<Q: ?Sized + Eq>(&self, q: &Q) -> Option<usize>
        where
            K: Borrow<Q>,
        {
            // loop-free on purpose
            if let Some((k, _)) = &self.slots[0] { if k.borrow() == q { return Some(0); } }
            if let Some((k, _)) = &self.slots[1] { if k.borrow() == q { return Some(1); } }
            if let Some((k, _)) = &self.slots[2] { if k.borrow() == q { return Some(2); } }
            if let Some((k, _)) = &self.slots[3] { if k.borrow() == q { return Some(3); } }
            None
        }

        pub(crate) fn get<Q: ?Sized + Eq>(&self, q: &Q) -> Option<&V>
        where
            K: Borrow<Q>,
        {
            match self.find(q) {
                Some(i) => self.slots[i].as_ref().map(|(_, v)| v),
                None => None,
            }
        }

        pub(crate) fn get_mut<Q: ?Sized + Eq>(&mut self, q: &Q) -> Option<&mut V>
        where
            K: Borrow<Q>,
        {
            match self.find(q) {
                Some(i) => self.slots[i].as_mut().map(|(_, v)| v),
                None => None,
            }
        }

        /// std semantics: on an existing key the VALUE is replaced and the OLD KEY object is kept.
        pub(crate) fn insert(&mut self, k: K, v: V) -> Option<V> {
            if let Some(i) = self.find(&k) {
                let slot = self.slots[i].as_mut().unwrap();
                return Some(std::mem::replace(&mut slot.1, v));
            }
            let free = if self.slots[0].is_none() { 0 }
                else if self.slots[1].is_none() { 1 }
                else if self.slots[2].is_none() { 2 }
                else if self.slots[3].is_none() { 3 }
                else { panic!("VERIF-BOUND: model capacity exceeded (more than 4 keys)") };
            self.slots[free] = Some((k, v));
            None
        }

        /// Harness-only: place a pair into a chosen slot (iteration order is arbitrary in std).
        #[allow(dead_code)]
        pub(crate) fn verif_put(&mut self, slot: usize, k: K, v: V) {
            assert!(self.slots[slot].is_none());
            self.slots[slot] = Some((k, v));
        }

        pub(crate) fn remove<Q: ?Sized + Eq>(&mut self, q: &Q) -> Option<V>
        where
            K: Borrow<Q>,
        {
            match self.find(q) {
                Some(i) => self.slots[i].take().map(|(_, v)| v),
                None => None,
            }
        }

        pub(crate) fn clear(&mut self) {
            self.slots = [None, None, None, None];
        }

        #[allow(dead_code)]
        pub(crate) fn len(&self) -> usize {
            self.slots[0].is_some() as usize
                + self.slots[1].is_some() as usize
                + self.slots[2].is_some() as usize
                + self.slots[3].is_some() as usize
        }

        #[allow(dead_code)]
        pub(crate) fn is_empty(&self) -> bool {
            self.len() == 0
        }

        pub(crate) fn iter(&self) -> Iter<'_, K, V> {
            Iter { slots: &self.slots, pos: 0 }
        }
    }

    pub(crate) struct Iter<'a, K, V> {
        slots: &'a [Option<(K, V)>; SLOTS],
        pos: usize,
    }

    impl<'a, K, V> Iterator for Iter<'a, K, V> {
        type Item = (&'a K, &'a V);
        fn next(&mut self) -> Option<Self::Item> {
            // loop-free on purpose (a loop here is re-unwound inside every adaptor loop of the caller)
            if self.pos == 0 {
                self.pos = 1;
                if let Some((k, v)) = &self.slots[0] { return Some((k, v)); }
            }
            if self.pos == 1 {
                self.pos = 2;
                if let Some((k, v)) = &self.slots[1] { return Some((k, v)); }
            }
            if self.pos == 2 {
                self.pos = 3;
                if let Some((k, v)) = &self.slots[2] { return Some((k, v)); }
            }
            if self.pos == 3 {
                self.pos = 4;
                if let Some((k, v)) = &self.slots[3] { return Some((k, v)); }
            }
            None
        }
    }
}
