//! MODEL of `crossbeam_channel::bounded` for bounded model checking of mini-moka's sync cache.
//! A FIFO of at most `min(cap, QCAP)` elements in a fixed array (mini-moka asks for 384; harnesses
//! build their own channels of capacity 2-4 and hand the receivers to `Inner::new`).
//! Single-threaded semantics: try_send / try_recv / len are atomic steps; nothing ever blocks.
#![allow(clippy::all)]
use std::cell::{Cell, UnsafeCell};
use std::sync::Arc;

pub const QCAP: usize = 4;

struct Chan<T> {
    buf: UnsafeCell<[Option<T>; QCAP]>,
    head: Cell<usize>,
    len: Cell<usize>,
    cap: usize,
    senders: Cell<usize>,
    rx_alive: Cell<bool>,
    sent_total: Cell<u64>,
}
unsafe impl<T: Send> Send for Chan<T> {}
unsafe impl<T: Send> Sync for Chan<T> {}

pub struct Sender<T> { ch: Arc<Chan<T>> }
pub struct Receiver<T> { ch: Arc<Chan<T>> }

pub enum TrySendError<T> { Full(T), Disconnected(T) }
#[derive(Debug, PartialEq, Eq, Clone, Copy)]
pub enum TryRecvError { Empty, Disconnected }

impl<T> std::fmt::Debug for TrySendError<T> {
    fn fmt(&self, f: &mut std::fmt::Formatter<'_>) -> std::fmt::Result {
        match self { TrySendError::Full(_) => f.write_str("Full(..)"), TrySendError::Disconnected(_) => f.write_str("Disconnected(..)") }
    }
}

pub fn bounded<T>(cap: usize) -> (Sender<T>, Receiver<T>) {
    let cap = if cap < QCAP { cap } else { QCAP };
    let ch = Arc::new(Chan {
        buf: UnsafeCell::new([None, None, None, None]),
        head: Cell::new(0),
        len: Cell::new(0),
        cap,
        senders: Cell::new(1),
        rx_alive: Cell::new(true),
        sent_total: Cell::new(0),
    });
    (Sender { ch: Arc::clone(&ch) }, Receiver { ch })
}

impl<T> Sender<T> {
    pub fn try_send(&self, msg: T) -> Result<(), TrySendError<T>> {
        let c = &*self.ch;
        if !c.rx_alive.get() { return Err(TrySendError::Disconnected(msg)); }
        if c.len.get() >= c.cap { return Err(TrySendError::Full(msg)); }
        let mut i = c.head.get() + c.len.get();
        if i >= QCAP { i -= QCAP; }
        unsafe { (*c.buf.get())[i] = Some(msg); }
        c.len.set(c.len.get() + 1);
        c.sent_total.set(c.sent_total.get() + 1);
        Ok(())
    }
    pub fn len(&self) -> usize { self.ch.len.get() }
    pub fn is_empty(&self) -> bool { self.len() == 0 }
    pub fn is_full(&self) -> bool { self.ch.len.get() >= self.ch.cap }
    pub fn capacity(&self) -> Option<usize> { Some(self.ch.cap) }
    /// total number of messages ever accepted (harness observation)
    pub fn verif_sent_total(&self) -> u64 { self.ch.sent_total.get() }
}
impl<T> Clone for Sender<T> {
    fn clone(&self) -> Self {
        self.ch.senders.set(self.ch.senders.get() + 1);
        Sender { ch: Arc::clone(&self.ch) }
    }
}
impl<T> Drop for Sender<T> {
    fn drop(&mut self) { self.ch.senders.set(self.ch.senders.get() - 1); }
}

impl<T> Receiver<T> {
    pub fn try_recv(&self) -> Result<T, TryRecvError> {
        let c = &*self.ch;
        if c.len.get() == 0 {
            return Err(if c.senders.get() == 0 { TryRecvError::Disconnected } else { TryRecvError::Empty });
        }
        let h = c.head.get();
        let m = unsafe { (*c.buf.get())[h].take() };
        c.head.set(if h + 1 == QCAP { 0 } else { h + 1 });
        c.len.set(c.len.get() - 1);
        match m { Some(m) => Ok(m), None => Err(TryRecvError::Empty) }
    }
    pub fn len(&self) -> usize { self.ch.len.get() }
    pub fn is_empty(&self) -> bool { self.len() == 0 }
}
impl<T> Drop for Receiver<T> {
    fn drop(&mut self) { self.ch.rx_alive.set(false); }
}
