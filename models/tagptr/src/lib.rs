//! MODEL of `tagptr::TagNonNull` for bounded model checking of mini-moka.
//!
//! The real type packs an N-bit tag into the low bits of a pointer (pointer -> integer -> pointer
//! round trips). CBMC loses the identity of the pointed-to object across such casts: every later
//! dereference of a decomposed pointer is case-split over all objects of the program. The model keeps
//! pointer and tag in separate fields, with the same observable behaviour of the subset mini-moka uses
//! (`compose`, `decompose*`, copy, equality): compose(p, t).decompose() == (p, t & mask).
//! What the model does NOT exercise: the bit packing itself; it asserts the precondition that makes
//! the packing sound (alignment of T leaves N free low bits), which the real `compose` checks too.
#![allow(clippy::all)]
use core::ptr::NonNull;

pub struct TagNonNull<T, const N: usize> {
    ptr: NonNull<T>,
    tag: usize,
}
impl<T, const N: usize> Clone for TagNonNull<T, N> {
    #[inline]
    fn clone(&self) -> Self { *self }
}
impl<T, const N: usize> Copy for TagNonNull<T, N> {}
impl<T, const N: usize> PartialEq for TagNonNull<T, N> {
    #[inline]
    fn eq(&self, o: &Self) -> bool { self.ptr == o.ptr && self.tag == o.tag }
}
impl<T, const N: usize> Eq for TagNonNull<T, N> {}
impl<T, const N: usize> core::fmt::Debug for TagNonNull<T, N> {
    fn fmt(&self, f: &mut core::fmt::Formatter<'_>) -> core::fmt::Result { f.write_str("TagNonNull(..)") }
}

impl<T, const N: usize> TagNonNull<T, N> {
    pub const TAG_BITS: usize = N;
    pub const TAG_MASK: usize = (1usize << N) - 1;
    #[inline]
    pub fn compose(ptr: NonNull<T>, tag: usize) -> Self {
        assert!(core::mem::align_of::<T>() >= (1usize << N), "tagptr model: T's alignment does not leave N free low bits");
        TagNonNull { ptr, tag: tag & Self::TAG_MASK }
    }
    #[inline]
    pub fn decompose(self) -> (NonNull<T>, usize) { (self.ptr, self.tag) }
    #[inline]
    pub fn decompose_ptr(self) -> *mut T { self.ptr.as_ptr() }
    #[inline]
    pub fn decompose_non_null(self) -> NonNull<T> { self.ptr }
    #[inline]
    pub fn decompose_tag(self) -> usize { self.tag }
    /// (the real one masks the tag bits off before dereferencing)
    #[inline]
    pub unsafe fn as_ref(&self) -> &T { &*self.ptr.as_ptr() }
    #[inline]
    pub unsafe fn as_mut(&mut self) -> &mut T { &mut *self.ptr.as_ptr() }
}
